package main

import (
	"fmt"
	"go/constant"
	"go/token"
	"go/types"
	"sort"
	"strings"

	"golang.org/x/tools/go/ssa"
)

// Obligation is one proof goal instance (one path, one assertion).
type Obligation struct {
	Name   string
	Func   string
	Kind   string
	Src    string // contract source text of the goal
	Script string
	PathID int
	Goal   string
	Trace  string
	Fn     *ssa.Function  `json:"-"`
	FC     *FuncContract  `json:"-"`
	Clause *Clause        `json:"-"`
	ReplayInputs map[string]string
	ReplayTranscript string
	ReplayConfirmed bool
	// results
	Status  string // unsat / sat / unknown / timeout
	Solver  string
	Seconds float64
	Model   string
	Output  string
}

// Cont is a continuation invoked when a function returns.
type Cont func(st *State, results []*Value)

// Exec verifies one function.
type Exec struct {
	eng       *Engine
	fn        *ssa.Function
	fc        *FuncContract
	nfresh    int
	globals   []string
	globalSet map[string]bool
	arrSort   map[string]string
	obls      []*Obligation
	paths     int
	discovery int
	aborted   string
	notes     map[string]bool
	entry     *State
	params    map[string]*Value
	loopHeads map[*ssa.BasicBlock]int      // loop head -> ordinal (1-based)
	loopBody  map[*ssa.BasicBlock]map[*ssa.BasicBlock]bool
	callOrd   map[ssa.Instruction]int
	cellOf    map[*ssa.Alloc]*Cell
	specUsed  map[string]bool
	pathCap   int
	coverDone map[string]bool
	discBody  []map[*ssa.BasicBlock]bool
	ovfN      int
	bindErrors []string
	atcallProbes map[string]int
	atcallSeen   map[string]bool
	noOvf      bool
	assumedObjInv map[string]bool
	specs     map[string]*specInst
	specDecls []string
	specDepth int
	fnKey     string
	curClause *Clause
	axiomTerms []string
	lemmaTerms []string
	recSpecs map[string]bool
	refArrays map[string]bool
	retCovers int
	entryCover *Obligation
	fspec *frameSpec
	retCoverCands []*Obligation
	axiomNames []string
}

func (x *Exec) note(s string) { x.notes[s] = true }

func newExec(eng *Engine, fn *ssa.Function, fc *FuncContract) *Exec {
	x := &Exec{eng: eng, fn: fn, fc: fc, globalSet: map[string]bool{}, arrSort: map[string]string{}, notes: map[string]bool{},
		cellOf: map[*ssa.Alloc]*Cell{}, specUsed: map[string]bool{}, pathCap: 6000, coverDone: map[string]bool{}, specs: map[string]*specInst{}, refArrays: map[string]bool{}, recSpecs: map[string]bool{}, assumedObjInv: map[string]bool{}, atcallProbes: map[string]int{}, atcallSeen: map[string]bool{}}
	return x
}

// ---------- loops ----------

func (x *Exec) analyzeLoops(fn *ssa.Function) (map[*ssa.BasicBlock]int, map[*ssa.BasicBlock]map[*ssa.BasicBlock]bool) {
	heads := map[*ssa.BasicBlock]int{}
	body := map[*ssa.BasicBlock]map[*ssa.BasicBlock]bool{}
	var hs []*ssa.BasicBlock
	for _, b := range fn.Blocks {
		for _, s := range b.Succs {
			if s.Dominates(b) { // back edge b -> s
				if _, ok := body[s]; !ok {
					body[s] = map[*ssa.BasicBlock]bool{s: true}
					hs = append(hs, s)
				}
				// natural loop: all nodes that can reach b without passing s
				stack := []*ssa.BasicBlock{b}
				for len(stack) > 0 {
					n := stack[len(stack)-1]
					stack = stack[:len(stack)-1]
					if body[s][n] {
						continue
					}
					body[s][n] = true
					for _, p := range n.Preds {
						stack = append(stack, p)
					}
				}
			}
		}
	}
	sort.Slice(hs, func(i, j int) bool { return hs[i].Index < hs[j].Index })
	for i, h := range hs {
		heads[h] = i + 1
	}
	return heads, body
}

// ---------- values of operands ----------

func (x *Exec) get(st *State, v ssa.Value) *Value {
	switch c := v.(type) {
	case *ssa.Const:
		return x.constValue(st, c)
	case *ssa.Function:
		return &Value{K: KFunc, T: c.Type(), Fn: &Closure{FnName: c.String(), Fn: c}}
	case *ssa.Global:
		name := "G_" + smtName(c.Pkg.Pkg.Name()+"_"+c.Name())
		x.globalDecl(name, fmt.Sprintf("(declare-const %s Int)", name))
		pt := c.Type().Underlying().(*types.Pointer)
		return &Value{K: KPtr, T: c.Type(), P: &Pointer{Base: name, Root: pt.Elem()}}
	case *ssa.Builtin:
		return &Value{K: KFunc, T: c.Type(), Fn: &Closure{FnName: "builtin:" + c.Name()}}
	}
	fr := st.top()
	if r, ok := fr.regs[v]; ok {
		return r
	}
	// free vars and params of enclosing frames are bound at frame creation
	x.note(fmt.Sprintf("unbound value %s in %s", v.Name(), fr.fn.Name()))
	r := x.freshValue(st, v.Type(), "unbound")
	fr.regs[v] = r
	return r
}

func (x *Exec) strConst(s string) string {
	if id, ok := x.eng.strIDs[s]; ok {
		return id
	}
	id := fmt.Sprintf("%d", 1000000+len(x.eng.strIDs))
	if s == "" {
		id = "0"
	}
	x.eng.strIDs[s] = id
	return id
}

func (x *Exec) constValue(st *State, c *ssa.Const) *Value {
	t := c.Type()
	if c.Value == nil {
		// nil or zero value
		if _, ok := t.Underlying().(*types.Pointer); ok {
			return &Value{K: KPtr, T: t, P: &Pointer{Nil: true, Base: "0", Root: t.Underlying().(*types.Pointer).Elem()}}
		}
		return x.zeroValue(st, t)
	}
	switch c.Value.Kind() {
	case constant.Bool:
		if constant.BoolVal(c.Value) {
			return leaf(t, "true")
		}
		return leaf(t, "false")
	case constant.Int:
		s := c.Value.ExactString()
		if strings.HasPrefix(s, "-") {
			s = "(- " + s[1:] + ")"
		}
		return leaf(t, s)
	case constant.String:
		sv := constant.StringVal(c.Value)
		id := x.strConst(sv)
		st.assume(fmt.Sprintf("(= (blen %s) %d)", id, len(sv)))
		return leaf(t, id)
	case constant.Float:
		if iv, ok := constant.Int64Val(constant.ToInt(c.Value)); ok && constant.ToInt(c.Value).Kind() == constant.Int {
			return leaf(t, smtInt(iv))
		}
		return leaf(t, x.fresh(st, "floatconst", "Int"))
	}
	return x.freshValue(st, t, "const")
}

func smtInt(i int64) string {
	if i < 0 {
		if i == -9223372036854775808 {
			return "(- 9223372036854775808)"
		}
		return fmt.Sprintf("(- %d)", -i)
	}
	return fmt.Sprintf("%d", i)
}

// retag returns v viewed at type t (ChangeType and friends).
func retag(v *Value, t types.Type) *Value {
	c := *v
	c.T = t
	switch v.K {
	case KStruct:
		if stt, ok := t.Underlying().(*types.Struct); ok && stt.NumFields() == len(v.Fs) {
			c.Fs = make([]*Value, len(v.Fs))
			for i := range v.Fs {
				c.Fs[i] = retag(v.Fs[i], stt.Field(i).Type())
			}
		}
	case KPtr:
		if pt, ok := t.Underlying().(*types.Pointer); ok && v.P != nil && len(v.P.Path) == 0 && v.P.Cell == nil && v.P.Idx == "" {
			np := *v.P
			np.Root = pt.Elem()
			c.P = &np
		}
	}
	return &c
}

// ---------- block execution ----------

func (x *Exec) pathDone() {
	x.paths++
	if x.paths > x.pathCap && x.aborted == "" {
		x.aborted = fmt.Sprintf("path cap %d exceeded", x.pathCap)
	}
}

func (x *Exec) enterBlock(st *State, b, prev *ssa.BasicBlock, k Cont) {
	if x.aborted != "" || st.dead {
		if st.dead {
			x.pathDone()
		}
		return
	}
	fr := st.top()
	st.trace = append(st.trace, fmt.Sprintf("%s:%d", fr.fn.Name(), b.Index))
	if fr.depth == 0 {
		st.curBlock = b
		if ord, ok := x.loopHeads[b]; ok {
			x.atLoopHead(st, b, prev, ord, k)
			return
		}
	} else if _, ok := x.eng.loopsOf(fr.fn)[b]; ok {
		// loop inside an inlined function: cannot happen (inlinability check), be safe
		x.note("loop in inlined function " + fr.fn.Name())
		st.dead = true
		x.pathDone()
		return
	}
	x.runFrom(st, b, 0, prev, k)
}

func (x *Exec) atLoopHead(st *State, b, prev *ssa.BasicBlock, ord int, k Cont) {
	ls := x.fc.Loops[ord]
	if ls == nil {
		if x.aborted == "" {
			x.aborted = fmt.Sprintf("loop %d has no invariant (out of subset)", ord)
		}
		return
	}
	if st.cut[b] {
		// arrived through the back edge: preservation
		if x.discovery > 0 {
			x.mergeDiscovery(st)
			x.pathDone()
			return
		}
		for _, inv := range ls.Invariants {
			g := x.evalClause(st, inv, x.invEnv(st, b))
			x.emit(st, fmt.Sprintf("inv%d:keep:%s", ord, inv.Label), "inv", inv.Src, g)
			st.assume(g)
		}
		if gs := x.loopFrameGoals(st, st.written); len(gs) > 0 {
			x.emit(st, fmt.Sprintf("inv%d:keep:frame", ord), "frame", "automatic loop invariant: only assigned or fresh locations have changed so far", smtAnd(gs))
		}
		x.pathDone()
		return
	}
	// first arrival: establish
	if x.discovery == 0 {
		for _, inv := range ls.Invariants {
			g := x.evalClause(st, inv, x.invEnv(st, b))
			x.emit(st, fmt.Sprintf("inv%d:entry:%s", ord, inv.Label), "inv", inv.Src, g)
			st.assume(g)
		}
	}
	// discover the write set of the loop body
	wkeys, wcells := x.discoverLoopWrites(st, b, prev)
	if x.discovery == 0 {
		if gs := x.loopFrameGoals(st, wkeys); len(gs) > 0 {
			x.emit(st, fmt.Sprintf("inv%d:entry:frame", ord), "frame", "automatic loop invariant: only assigned or fresh locations have changed so far", smtAnd(gs))
		}
	}
	// havoc
	for _, c := range wcells {
		if _, promoted := st.promo[c]; promoted {
			continue
		}
		st.cells[c] = x.freshValue(st, c.T, "loop_"+c.Name)
		x.markValueAllocated(st, st.cells[c]) // whatever a local refers to at the loop head exists already
		st.wcells[c] = true
	}
	if wkeys["*"] {
		x.havocAllHeap(st)
	} else {
		// partial havocs only: what every one of them leaves alone stays
		var common []string
		first := true
		for key := range wkeys {
			if strings.HasPrefix(key, "*|") {
				ps := strings.Split(key[2:], ",")
				if first {
					common, first = ps, false
				} else {
					var both []string
					for _, p := range common {
						for _, q := range ps {
							if p == q {
								both = append(both, p)
							}
						}
					}
					common = both
				}
			}
		}
		if !first {
			if len(common) == 0 {
				x.havocAllHeap(st)
			} else {
				x.havocExcept(st, common)
			}
		}
	}
	for _, key := range sortedKeys(wkeys) {
		if key == "*" || strings.HasPrefix(key, "*|") {
			continue
		}
		if strings.HasPrefix(key, "G|$visited") {
			st.ghost[key[2:]] = leaf(nil, x.fresh(st, "visited", "(Array Int Bool)"))
			st.written[key] = true
			continue
		}
		if key == "G|$sends" || key == "G|$recvnil" {
			if key == "G|$sends" {
				st.ghost["$sends"] = leaf(nil, x.fresh(st, "sends", "(Array Int Int)"))
				st.ghost["$lastsent"] = leaf(nil, x.fresh(st, "lastsent", "(Array Int Int)"))
			} else {
				st.ghost["$recvnil"] = leaf(nil, x.fresh(st, "recvnil", "(Array Int Bool)"))
			}
			st.written[key] = true
			continue
		}
		if strings.HasPrefix(key, "G|") {
			g := x.eng.cs.Ghosts[key[2:]]
			if g != nil {
				st.ghost[g.Name] = x.freshValue(st, x.eng.ghostType(g), "ghost_"+g.Name)
				st.written[key] = true
			}
			continue
		}
		if key == "L|" {
			st.locks = x.fresh(st, "locks", "(Array Int Int)")
			st.written[key] = true
			continue
		}
		x.havocHeapArr(st, key)
	}
	st.cut[b] = true
	// the frame so far is assumed for the havocked arrays (it was proved on entry and is re-proved at the back edge)
	for _, g := range x.loopFrameGoals(st, wkeys) {
		st.assume(g)
	}
	for _, inv := range ls.Invariants {
		ienv := x.invEnv(st, b)
		ienv.dropGuards = true
		g := x.evalClause(st, inv, ienv)
		st.assume(g)
	}
	x.runFrom(st, b, 0, prev, k)
}

var discoveryAcc []*State

func (x *Exec) mergeDiscovery(st *State) {
	discoveryAcc = append(discoveryAcc, st)
}

// discoverLoopWrites runs the loop body once from the current state (no obligations) to find what it writes.
func (x *Exec) discoverLoopWrites(st *State, head, prev *ssa.BasicBlock) (map[string]bool, []*Cell) {
	keys := map[string]bool{}
	cells := map[*Cell]bool{}
	body := x.loopBody[head]
	for round := 0; round < 3; round++ {
		d := st.clone()
		d.written = map[string]bool{}
		d.wcells = map[*Cell]bool{}
		// havoc what is known so far
		for c := range cells {
			if _, promoted := d.promo[c]; !promoted {
				d.cells[c] = x.freshValue(d, c.T, "disc_"+c.Name)
			}
		}
		d.cut[head] = true
		saveAcc := discoveryAcc
		discoveryAcc = nil
		savePaths := x.paths
		x.discovery++
		x.discBody = append(x.discBody, body)
		x.runFrom(d, head, 0, prev, func(s *State, _ []*Value) { x.mergeDiscovery(s) })
		x.discBody = x.discBody[:len(x.discBody)-1]
		x.discovery--
		x.paths = savePaths
		grew := false
		for _, s := range discoveryAcc {
			for k := range s.written {
				if !keys[k] {
					keys[k] = true
					grew = true
				}
			}
			for c := range s.wcells {
				if !cells[c] {
					cells[c] = true
					grew = true
				}
			}
		}
		discoveryAcc = saveAcc
		if !grew {
			break
		}
	}
	var cl []*Cell
	for c := range cells {
		cl = append(cl, c)
	}
	sort.Slice(cl, func(i, j int) bool { return cl[i].ID < cl[j].ID })
	return keys, cl
}

func (x *Exec) runFrom(st *State, b *ssa.BasicBlock, idx int, prev *ssa.BasicBlock, k Cont) {
	for i := idx; i < len(b.Instrs); i++ {
		if x.aborted != "" {
			return
		}
		if st.dead {
			x.pathDone()
			return
		}
		ins := b.Instrs[i]
		switch in := ins.(type) {
		case *ssa.DebugRef:
			continue
		case *ssa.If:
			c := x.get(st, in.Cond)
			x.branch(st, c.Term, b, b.Succs[0], b.Succs[1], k)
			return
		case *ssa.Jump:
			x.jump(st, b, b.Succs[0], k)
			return
		case *ssa.Return:
			var res []*Value
			for _, r := range in.Results {
				res = append(res, x.get(st, r))
			}
			x.doReturn(st, res, k)
			return
		case *ssa.Panic:
			x.doPanic(st, in)
			return
		case *ssa.Call:
			cont := func(s *State, res []*Value) {
				s.top().regs[in] = packResults(in.Type(), res)
				x.runFrom(s, b, i+1, prev, k)
			}
			x.call(st, in, &in.Call, cont)
			return
		case *ssa.RunDefers:
			x.runDefers(st, func(s *State, _ []*Value) { x.runFrom(s, b, i+1, prev, k) })
			return
		case *ssa.Select:
			x.doSelect(st, in, func(s *State, _ []*Value) { x.runFrom(s, b, i+1, prev, k) })
			return
		case *ssa.Phi:
			var val *Value
			for pi, p := range b.Preds {
				if p == prev {
					val = x.get(st, in.Edges[pi])
				}
			}
			if val == nil {
				val = x.freshValue(st, in.Type(), "phi")
			}
			st.top().regs[in] = val
		default:
			x.step(st, ins)
		}
	}
}

func packResults(t types.Type, res []*Value) *Value {
	if tt, ok := t.(*types.Tuple); ok {
		if tt.Len() == 0 {
			return &Value{K: KTuple, T: t}
		}
		return &Value{K: KTuple, T: t, Fs: res}
	}
	if len(res) == 1 {
		return res[0]
	}
	return &Value{K: KTuple, T: t, Fs: res}
}

func (x *Exec) inDiscBody(b *ssa.BasicBlock) bool {
	if x.discovery == 0 || len(x.discBody) == 0 {
		return true
	}
	return x.discBody[len(x.discBody)-1][b]
}

func (x *Exec) jump(st *State, from, to *ssa.BasicBlock, k Cont) {
	if st.top().depth == 0 && !x.inDiscBody(to) {
		// leaving the loop during write-set discovery
		x.mergeDiscovery(st)
		x.pathDone()
		return
	}
	x.enterBlock(st, to, from, k)
}

func (x *Exec) branch(st *State, cond string, from, thenB, elseB *ssa.BasicBlock, k Cont) {
	switch cond {
	case "true":
		x.jump(st, from, thenB, k)
		return
	case "false":
		x.jump(st, from, elseB, k)
		return
	}
	st2 := st.clone()
	st.assume(cond)
	x.jump(st, from, thenB, k)
	st2.assume(smtNot(cond))
	x.jump(st2, from, elseB, k)
}

func smtNot(c string) string {
	if strings.HasPrefix(c, "(not ") && strings.HasSuffix(c, ")") && balanced(c[5:len(c)-1]) {
		return c[5 : len(c)-1]
	}
	if c == "true" {
		return "false"
	}
	if c == "false" {
		return "true"
	}
	return "(not " + c + ")"
}

func balanced(s string) bool {
	d := 0
	for i := 0; i < len(s); i++ {
		switch s[i] {
		case '(':
			d++
		case ')':
			d--
			if d < 0 {
				return false
			}
		case ' ':
			if d == 0 {
				return false
			}
		}
	}
	return d == 0
}

func (x *Exec) doPanic(st *State, in *ssa.Panic) {
	if st.top().depth == 0 || true {
		if x.discovery == 0 && x.fc != nil && x.fc.Checks["nopanic"] {
			x.emit(st, fmt.Sprintf("nopanic@%d", x.ordinalOf(in)), "nopanic", "panic unreachable", "false")
		}
	}
	x.pathDone()
}

func (x *Exec) ordinalOf(in ssa.Instruction) int {
	if o, ok := x.callOrd[in]; ok {
		return o
	}
	return 0
}

func (x *Exec) doReturn(st *State, res []*Value, k Cont) {
	fr := st.top()
	if fr.depth > 0 {
		st.frames = st.frames[:len(st.frames)-1]
	}
	k(st, res)
}

func (x *Exec) runDefers(st *State, k Cont) {
	fr := st.top()
	if len(fr.defers) == 0 {
		k(st, nil)
		return
	}
	d := fr.defers[len(fr.defers)-1]
	fr.defers = fr.defers[:len(fr.defers)-1]
	x.callValue(st, d.pos, d.call, d.fnv, d.args, func(s *State, _ []*Value) {
		x.runDefers(s, k)
	})
}

func (x *Exec) doSelect(st *State, in *ssa.Select, k Cont) {
	// nondeterministic choice among the cases (and default when non-blocking)
	n := len(in.States)
	total := n
	if !in.Blocking {
		total++
	}
	for ci := 0; ci < total; ci++ {
		s := st
		if ci < total-1 {
			s = st.clone()
		}
		idx := ci
		if ci == n {
			idx = -1
		}
		tt := in.Type().(*types.Tuple)
		fs := []*Value{leaf(types.Typ[types.Int], smtInt(int64(idx))), leaf(types.Typ[types.Bool], x.fresh(s, "recvok", "Bool"))}
		for j := 2; j < tt.Len(); j++ {
			fs = append(fs, x.freshValue(s, tt.At(j).Type(), "recv"))
		}
		s.top().regs[in] = &Value{K: KTuple, T: in.Type(), Fs: fs}
		k(s, nil)
	}
}

// ---------- single instruction ----------

func (x *Exec) step(st *State, ins ssa.Instruction) {
	fr := st.top()
	switch in := ins.(type) {
	case *ssa.Alloc:
		et := in.Type().Underlying().(*types.Pointer).Elem()
		if in.Heap {
			p := x.allocObj(st, et, in.Comment)
			fr.regs[in] = &Value{K: KPtr, T: in.Type(), P: p}
			if privateAlloc(in) {
				st.private = append(st.private, p)
			}
		} else {
			c := x.cellOf[in]
			if c == nil {
				c = &Cell{ID: len(x.cellOf) + 1, Name: in.Comment, T: et}
				x.cellOf[in] = c
			}
			st.cells[c] = x.zeroValue(st, et)
			delete(st.promo, c)
			fr.regs[in] = &Value{K: KPtr, T: in.Type(), P: &Pointer{Cell: c, Root: et}}
		}
	case *ssa.Store:
		a := x.get(st, in.Addr)
		v := x.get(st, in.Val)
		if a.K != KPtr {
			x.note("store through non-pointer value")
			return
		}
		et := in.Addr.Type().Underlying().(*types.Pointer).Elem()
		x.store(st, a.P, x.coerce(st, v, et))
	case *ssa.UnOp:
		fr.regs[in] = x.unop(st, in)
	case *ssa.BinOp:
		// the synthetic index of a range loop cannot overflow (it is bounded by the length): no ovf obligation
		if in.Op == token.ADD {
			if xv, ok := in.X.(*ssa.Phi); ok && xv.Comment == "rangeindex" {
				x.noOvf = true
			}
			if ld, ok := in.X.(*ssa.UnOp); ok && ld.Op == token.MUL {
				if al, ok := ld.X.(*ssa.Alloc); ok && al.Comment == "rangeindex" {
					x.noOvf = true
				}
			}
		}
		fr.regs[in] = x.binop(st, in.Op, x.get(st, in.X), x.get(st, in.Y), in.Type())
		x.noOvf = false
	case *ssa.FieldAddr:
		b := x.get(st, in.X)
		if b.K != KPtr {
			x.note("fieldaddr on non-pointer")
			fr.regs[in] = x.freshPtr(st, in.Type())
			return
		}
		if b.P.Nil {
			st.dead = true
			fr.regs[in] = b
			return
		}
		np := *b.P
		np.Path = append(append([]Sel(nil), b.P.Path...), Sel{Field: in.Field})
		if b.P.Cell == nil {
			if x.fc != nil && x.fc.Checks["nil"] && fr.depth == 0 && x.discovery == 0 && len(b.P.Path) == 0 && b.P.Idx == "" && !b.P.Abs {
				stt := in.X.Type().Underlying().(*types.Pointer).Elem()
				fname := ""
				if s, ok := stt.Underlying().(*types.Struct); ok {
					fname = s.Field(in.Field).Name()
				}
				x.emit(st, "nil:"+shortType(stt)+"."+fname, "nil", "pointer is not nil where a field is accessed", fmt.Sprintf("(not (= %s 0))", b.P.Base))
			}
			st.assume(fmt.Sprintf("(not (= %s 0))", b.P.Base)) // a nil dereference panics
		}
		fr.regs[in] = &Value{K: KPtr, T: in.Type(), P: &np}
	case *ssa.Field:
		b := x.get(st, in.X)
		if b.K == KStruct {
			fr.regs[in] = b.Fs[in.Field]
		} else {
			fr.regs[in] = x.freshValue(st, in.Type(), "field")
		}
	case *ssa.IndexAddr:
		fr.regs[in] = x.indexAddr(st, in)
	case *ssa.Index:
		b := x.get(st, in.X)
		i := x.get(st, in.Index)
		if b.K == KArr {
			if n, ok := constInt(i.Term); ok && n >= 0 && n < len(b.Fs) {
				fr.regs[in] = b.Fs[n]
				return
			}
			fr.regs[in] = x.freshValue(st, in.Type(), "arridx")
			return
		}
		if b.K == KLeaf && isAbstractBytes(b.T) {
			t := fmt.Sprintf("(bat %s %s)", b.Term, i.Term)
			st.assume(fmt.Sprintf("(and (<= 0 %s) (< %s (blen %s)))", i.Term, i.Term, b.Term))
			st.assume(fmt.Sprintf("(and (<= 0 %s) (<= %s 255))", t, t))
			fr.regs[in] = leaf(in.Type(), t)
			return
		}
		fr.regs[in] = x.freshValue(st, in.Type(), "index")
	case *ssa.Extract:
		t := x.get(st, in.Tuple)
		if t.K == KTuple && in.Index < len(t.Fs) {
			fr.regs[in] = t.Fs[in.Index]
		} else {
			fr.regs[in] = x.freshValue(st, in.Type(), "extract")
		}
	case *ssa.ChangeType:
		fr.regs[in] = retag(x.get(st, in.X), in.Type())
	case *ssa.ChangeInterface:
		fr.regs[in] = retag(x.get(st, in.X), in.Type())
	case *ssa.Convert:
		fr.regs[in] = x.convert(st, x.get(st, in.X), in.X.Type(), in.Type())
	case *ssa.MultiConvert:
		fr.regs[in] = x.convert(st, x.get(st, in.X), in.X.Type(), in.Type())
	case *ssa.MakeInterface:
		fr.regs[in] = x.makeIface(st, x.get(st, in.X), in.X.Type(), in.Type())
	case *ssa.TypeAssert:
		fr.regs[in] = x.typeAssert(st, in)
	case *ssa.MakeClosure:
		fn := in.Fn.(*ssa.Function)
		var binds []*Value
		for _, b := range in.Bindings {
			binds = append(binds, x.get(st, b))
		}
		fr.regs[in] = &Value{K: KFunc, T: in.Type(), Fn: &Closure{FnName: fn.String(), Fn: fn, Binds: binds}}
	case *ssa.MakeMap:
		ref := x.freshRef(st, "map")
		mt := in.Type().Underlying().(*types.Map)
		x.mapInit(st, mt, ref)
		fr.regs[in] = leaf(in.Type(), ref)
		if privateMap(in) {
			st.privMaps = append(st.privMaps, privMap{ref: ref, mt: mt})
		}
	case *ssa.MakeSlice:
		fr.regs[in] = x.makeSlice(st, in.Type(), x.get(st, in.Len))
	case *ssa.MakeChan:
		fr.regs[in] = leaf(in.Type(), x.freshRef(st, "chan"))
	case *ssa.Slice:
		fr.regs[in] = x.sliceOp(st, in)
	case *ssa.Lookup:
		fr.regs[in] = x.lookup(st, in)
	case *ssa.MapUpdate:
		x.mapUpdate(st, x.get(st, in.Map), x.get(st, in.Key), x.get(st, in.Value))
	case *ssa.Range:
		fr.regs[in] = x.rangeInit(st, in)
	case *ssa.Next:
		fr.regs[in] = x.rangeNext(st, in)
	case *ssa.Defer:
		var args []*Value
		for _, a := range in.Call.Args {
			args = append(args, x.get(st, a))
		}
		var fnv *Value
		if !in.Call.IsInvoke() {
			fnv = x.get(st, in.Call.Value)
		} else {
			fnv = x.get(st, in.Call.Value)
		}
		fr.defers = append(fr.defers, &deferred{call: &in.Call, fnv: fnv, args: args, pos: in})
	case *ssa.Go:
		x.note("goroutine spawn not modelled: " + in.Call.String())
	case *ssa.Send:
		x.sendHook(st, in)
	case *ssa.SliceToArrayPointer:
		fr.regs[in] = x.freshPtr(st, in.Type())
	default:
		x.note(fmt.Sprintf("unhandled instruction %T", ins))
		if v, ok := ins.(ssa.Value); ok {
			fr.regs[v] = x.freshValue(st, v.Type(), "unk")
		}
	}
}

func (x *Exec) sendHook(st *State, in *ssa.Send) {
	// ghost counter of sends per channel: sendcount[chan]
	ch := x.get(st, in.Chan)
	if ch.K != KLeaf {
		return
	}
	if g, ok := st.ghost["$sends"]; ok {
		nt := fmt.Sprintf("(store %s %s (+ (select %s %s) 1))", g.Term, ch.Term, g.Term, ch.Term)
		name := x.fresh(st, "sends", "(Array Int Int)")
		st.assume(fmt.Sprintf("(= %s %s)", name, nt))
		st.ghost["$sends"] = leaf(nil, name)
		st.written["G|$sends"] = true
		// last value sent
		v := x.get(st, in.X)
		terms := x.flatten(v)
		if len(terms) > 0 {
			lg := st.ghost["$lastsent"]
			n2 := x.fresh(st, "lastsent", "(Array Int Int)")
			st.assume(fmt.Sprintf("(= %s (store %s %s %s))", n2, lg.Term, ch.Term, terms[0]))
			st.ghost["$lastsent"] = leaf(nil, n2)
		}
	}
}

func constInt(term string) (int, bool) {
	var n int
	if _, err := fmt.Sscanf(term, "%d", &n); err == nil && fmt.Sprintf("%d", n) == term {
		return n, true
	}
	return 0, false
}

func (x *Exec) freshPtr(st *State, t types.Type) *Value {
	ref := x.fresh(st, "ptr", "Int")
	st.assume(fmt.Sprintf("(>= %s 0)", ref))
	return ptrFromTerm(t, ref)
}

// coerce adapts a value to the static type expected at a store (mostly for nil constants).
func (x *Exec) coerce(st *State, v *Value, t types.Type) *Value {
	return v
}

func (x *Exec) unop(st *State, in *ssa.UnOp) *Value {
	v := x.get(st, in.X)
	switch in.Op {
	case token.MUL:
		if v.K != KPtr {
			x.note("load through non-pointer")
			return x.freshValue(st, in.Type(), "load")
		}
		if !v.P.Nil && v.P.Cell == nil && !v.P.Abs && v.P.Idx == "" {
			if x.fc != nil && x.fc.Checks["nil"] && st.top().depth == 0 && x.discovery == 0 && len(v.P.Path) == 0 {
				x.emit(st, "nil:*"+shortType(in.X.Type().Underlying().(*types.Pointer).Elem()), "nil", "pointer is not nil where it is dereferenced", fmt.Sprintf("(not (= %s 0))", v.P.Base))
			}
			st.assume(fmt.Sprintf("(not (= %s 0))", v.P.Base))
		}
		lv := x.load(st, v.P, in.Type())
		if v.P.Cell == nil {
			// whatever reference the heap holds refers to an object that exists at the time of the load
			switch lv.K {
			case KPtr, KSlice:
				x.markValueAllocated(st, lv)
			case KLeaf:
				if _, isMap := lv.T.Underlying().(*types.Map); isMap {
					x.markValueAllocated(st, lv)
				}
			}
		}
		if g, ok := in.X.(*ssa.Global); ok && lv.K == KIface && x.eng.initOnlyErrGlobal(g) {
			// a package-level error variable initialised by errors.New/fmt.Errorf and never assigned again
			st.assume(fmt.Sprintf("(not (= %s 0))", lv.Fs[0].Term))
		}
		return lv
	case token.SUB:
		return x.arith(st, in.Type(), fmt.Sprintf("(- %s)", v.Term), "neg")
	case token.NOT:
		return leaf(in.Type(), smtNot(v.Term))
	case token.XOR:
		return leaf(in.Type(), fmt.Sprintf("(- (- %s) 1)", v.Term))
	case token.ARROW:
		return x.chanRecv(st, in, v)
	}
	return x.freshValue(st, in.Type(), "unop")
}

func (x *Exec) chanRecv(st *State, in *ssa.UnOp, ch *Value) *Value {
	var val *Value
	et := in.Type()
	if in.CommaOk {
		tt := in.Type().(*types.Tuple)
		et = tt.At(0).Type()
	}
	val = x.freshValue(st, et, "recv")
	// ghost: recvdnil[ch] becomes true once a nil interface value has been received from ch
	if g, ok := st.ghost["$recvnil"]; ok && ch.K == KLeaf && val.K == KIface {
		name := x.fresh(st, "recvnil", "(Array Int Bool)")
		st.assume(fmt.Sprintf("(= %s (store %s %s (or (select %s %s) (= %s 0))))", name, g.Term, ch.Term, g.Term, ch.Term, val.Fs[0].Term))
		st.ghost["$recvnil"] = leaf(nil, name)
		st.written["G|$recvnil"] = true
	}
	if in.CommaOk {
		return &Value{K: KTuple, T: in.Type(), Fs: []*Value{val, leaf(types.Typ[types.Bool], x.fresh(st, "recvok", "Bool"))}}
	}
	return val
}

// pow2Term: 2^e for a symbolic exponent, as the uninterpreted pow2i with its recurrence instantiated once.
func (x *Exec) pow2Term(st *State, e string) string {
	t := fmt.Sprintf("(pow2i %s)", e)
	st.assume(fmt.Sprintf("(> %s 0)", t))
	st.assume(fmt.Sprintf("(=> (>= %s 1) (= %s (* 2 (pow2i (- %s 1)))))", e, t, e))
	st.assume(fmt.Sprintf("(=> (>= %s 2) (= (pow2i (- %s 1)) (* 2 (pow2i (- %s 2)))))", e, e, e))
	return t
}

func isUnsigned(t types.Type) bool {
	if b, ok := t.Underlying().(*types.Basic); ok {
		return b.Info()&types.IsUnsigned != 0
	}
	return false
}

func isInteger(t types.Type) bool {
	if b, ok := t.Underlying().(*types.Basic); ok {
		return b.Info()&types.IsInteger != 0
	}
	return false
}

func isFloat(t types.Type) bool {
	if b, ok := t.Underlying().(*types.Basic); ok {
		return b.Info()&(types.IsFloat|types.IsComplex) != 0
	}
	return false
}

func pow2(k int) string {
	// 2^k as decimal
	r := []int{1}
	for i := 0; i < k; i++ {
		carry := 0
		for j := range r {
			v := r[j]*2 + carry
			r[j] = v % 10
			carry = v / 10
		}
		if carry > 0 {
			r = append(r, carry)
		}
	}
	var sb strings.Builder
	for i := len(r) - 1; i >= 0; i-- {
		sb.WriteByte(byte('0' + r[i]))
	}
	return sb.String()
}

func ptrNonNil(p *Pointer) bool {
	return !p.Nil && (p.Cell != nil || len(p.Path) > 0 || p.Idx != "")
}

func (x *Exec) valuesEqual(st *State, a, b *Value) string {
	if a.K == KPtr && b.K == KPtr {
		if a.P.Nil && b.P.Nil {
			return "true"
		}
		if (a.P.Nil && ptrNonNil(b.P)) || (b.P.Nil && ptrNonNil(a.P)) {
			return "false"
		}
	}
	if a.K == KIface && b.K != KIface || b.K == KIface && a.K != KIface {
		// comparing interface with concrete: not expected in SSA
		return x.fresh(st, "cmp", "Bool")
	}
	ta := x.flatten(a)
	tb := x.flatten(b)
	if len(ta) != len(tb) {
		// nil constant of composite type vs value: compare to zero
		if len(ta) == 1 && ta[0] == "0" {
			ta = make([]string, len(tb))
			for i := range ta {
				ta[i] = "0"
			}
		} else if len(tb) == 1 && tb[0] == "0" {
			tb = make([]string, len(ta))
			for i := range tb {
				tb[i] = "0"
			}
		} else {
			return x.fresh(st, "cmp", "Bool")
		}
	}
	if a.K == KSlice || b.K == KSlice {
		// slice == nil
		return fmt.Sprintf("(= %s %s)", ta[0], tb[0])
	}
	if a.K == KIface {
		if b.Fs[0].Term == "0" || a.Fs[0].Term == "0" {
			return fmt.Sprintf("(= %s %s)", ta[0], tb[0])
		}
	}
	var parts []string
	for i := range ta {
		if ta[i] == tb[i] {
			continue
		}
		parts = append(parts, fmt.Sprintf("(= %s %s)", ta[i], tb[i]))
	}
	return smtAnd(parts)
}

func smtAnd(parts []string) string {
	var ps []string
	for _, p := range parts {
		if p == "true" {
			continue
		}
		if p == "false" {
			return "false"
		}
		ps = append(ps, p)
	}
	switch len(ps) {
	case 0:
		return "true"
	case 1:
		return ps[0]
	}
	return "(and " + strings.Join(ps, " ") + ")"
}

func smtOr(parts []string) string {
	var ps []string
	for _, p := range parts {
		if p == "false" {
			continue
		}
		if p == "true" {
			return "true"
		}
		ps = append(ps, p)
	}
	switch len(ps) {
	case 0:
		return "false"
	case 1:
		return ps[0]
	}
	return "(or " + strings.Join(ps, " ") + ")"
}

func (x *Exec) binop(st *State, op token.Token, a, b *Value, rt types.Type) *Value {
	switch op {
	case token.EQL:
		return leaf(rt, x.valuesEqual(st, a, b))
	case token.NEQ:
		return leaf(rt, smtNot(x.valuesEqual(st, a, b)))
	}
	if a.K != KLeaf || b.K != KLeaf {
		return x.freshValue(st, rt, "binop")
	}
	at := a.T
	if at == nil {
		at = b.T
	}
	if at != nil && isFloat(at) {
		return x.freshValue(st, rt, "float")
	}
	isStr := at != nil && isAbstractBytes(at)
	A, B := a.Term, b.Term
	switch op {
	case token.ADD:
		if isStr {
			t := fmt.Sprintf("(bconcat %s %s)", A, B)
			st.assume(fmt.Sprintf("(= (blen %s) (+ (blen %s) (blen %s)))", t, A, B))
			return leaf(rt, t)
		}
		return x.arith(st, rt, fmt.Sprintf("(+ %s %s)", A, B), "add")
	case token.SUB:
		return x.arith(st, rt, fmt.Sprintf("(- %s %s)", A, B), "sub")
	case token.MUL:
		return x.arith(st, rt, fmt.Sprintf("(* %s %s)", A, B), "mul")
	case token.QUO:
		st.assume(fmt.Sprintf("(not (= %s 0))", B)) // division by zero panics
		if _, isConst := constInt(B); !isConst {
			// division by a symbolic divisor: state the defining property for the non-negative case
			q := x.fresh(st, "quot", "Int")
			st.assume(fmt.Sprintf("(= %s (tdiv %s %s))", q, A, B))
			st.assume(fmt.Sprintf("(=> (and (> %s 0) (>= %s 0)) (and (<= (* %s %s) %s) (< %s (+ (* %s %s) %s)) (>= %s 0)))", B, A, B, q, A, A, B, q, B, q))
			return x.arith(st, rt, q, "div")
		}
		return x.arith(st, rt, fmt.Sprintf("(tdiv %s %s)", A, B), "div")
	case token.REM:
		st.assume(fmt.Sprintf("(not (= %s 0))", B))
		return leaf(rt, fmt.Sprintf("(tmod %s %s)", A, B))
	case token.LSS, token.LEQ, token.GTR, token.GEQ:
		if isStr {
			var t string
			switch op {
			case token.LSS:
				t = fmt.Sprintf("(< (bcmp %s %s) 0)", A, B)
			case token.LEQ:
				t = fmt.Sprintf("(<= (bcmp %s %s) 0)", A, B)
			case token.GTR:
				t = fmt.Sprintf("(> (bcmp %s %s) 0)", A, B)
			default:
				t = fmt.Sprintf("(>= (bcmp %s %s) 0)", A, B)
			}
			return leaf(rt, t)
		}
		o := map[token.Token]string{token.LSS: "<", token.LEQ: "<=", token.GTR: ">", token.GEQ: ">="}[op]
		return leaf(rt, fmt.Sprintf("(%s %s %s)", o, A, B))
	case token.LAND:
		return leaf(rt, smtAnd([]string{A, B}))
	case token.LOR:
		return leaf(rt, smtOr([]string{A, B}))
	case token.SHL:
		if k, ok := constInt(B); ok && k >= 0 && k < 128 {
			return x.arith(st, rt, fmt.Sprintf("(* %s %s)", A, pow2(k)), "shl")
		}
		return x.arith(st, rt, fmt.Sprintf("(* %s %s)", A, x.pow2Term(st, B)), "shl")
	case token.SHR:
		if k, ok := constInt(B); ok && k >= 0 && k < 128 {
			return leaf(rt, fmt.Sprintf("(div %s %s)", A, pow2(k)))
		}
		return leaf(rt, fmt.Sprintf("(bvshr_u %s %s)", A, B))
	case token.AND:
		if sortOf(rt) == "Bool" {
			return leaf(rt, smtAnd([]string{A, B}))
		}
		return leaf(rt, fmt.Sprintf("(bvand_u %s %s)", A, B))
	case token.OR:
		if sortOf(rt) == "Bool" {
			return leaf(rt, smtOr([]string{A, B}))
		}
		return leaf(rt, fmt.Sprintf("(bvor_u %s %s)", A, B))
	case token.XOR:
		return leaf(rt, fmt.Sprintf("(bvxor_u %s %s)", A, B))
	case token.AND_NOT:
		return leaf(rt, fmt.Sprintf("(bvandnot_u %s %s)", A, B))
	}
	return x.freshValue(st, rt, "binop")
}

// arith wraps an integer arithmetic result: with "checks ovf" an obligation is emitted that it fits.
func (x *Exec) arith(st *State, rt types.Type, term, what string) *Value {
	if b, ok := rt.Underlying().(*types.Basic); ok && what != "div" {
		if bits, signed := intBits(b); bits > 0 && !signed {
			return leaf(rt, fmt.Sprintf("(mod %s %s)", term, pow2(bits)))
		}
	}
	if x.fc != nil && x.fc.Checks["ovf"] && st.top().depth == 0 && x.discovery == 0 && !x.noOvf {
		if b, ok := rt.Underlying().(*types.Basic); ok {
			if lo, hi, ok := intRange(b); ok {
				x.ovfN++
				x.emit(st, fmt.Sprintf("ovf:%s", what), "ovf", what+" fits "+b.Name(), fmt.Sprintf("(and (<= %s %s) (<= %s %s))", lo, term, term, hi))
			}
		}
	}
	return leaf(rt, term)
}

func (x *Exec) convert(st *State, v *Value, from, to types.Type) *Value {
	if v.K != KLeaf {
		return retag(v, to)
	}
	fb, fok := from.Underlying().(*types.Basic)
	tb, tok := to.Underlying().(*types.Basic)
	if isAbstractBytes(from) && isAbstractBytes(to) {
		return leaf(to, v.Term)
	}
	if fok && tok {
		if fb.Info()&types.IsInteger != 0 && tb.Info()&types.IsInteger != 0 {
			if x.fc != nil && x.fc.Checks["conv"] && st.top().depth == 0 && x.discovery == 0 {
				if lo, hi, ok := intRange(tb); ok {
					flo, fhi, _ := intRange(fb)
					if flo != lo || fhi != hi {
						x.emit(st, "conv", "conv", "conversion to "+tb.Name()+" preserves the value", fmt.Sprintf("(and (<= %s %s) (<= %s %s))", lo, v.Term, v.Term, hi))
					}
				}
			}
			return leaf(to, wrapConv(v.Term, fb, tb))
		}
		if fb.Info()&types.IsInteger != 0 && tb.Info()&types.IsString != 0 {
			return x.freshValue(st, to, "runestr")
		}
		if isFloat(from) || isFloat(to) {
			return x.freshValue(st, to, "floatconv")
		}
	}
	return retag(v, to)
}

func intBits(b *types.Basic) (bits int, signed bool) {
	switch b.Kind() {
	case types.Int, types.Int64:
		return 64, true
	case types.Int32:
		return 32, true
	case types.Int16:
		return 16, true
	case types.Int8:
		return 8, true
	case types.Uint, types.Uint64, types.Uintptr:
		return 64, false
	case types.Uint32:
		return 32, false
	case types.Uint16:
		return 16, false
	case types.Uint8:
		return 8, false
	}
	return 0, false
}

// wrapConv gives Go's exact integer conversion semantics (two's complement truncation).
func wrapConv(term string, from, to *types.Basic) string {
	fb, fs := intBits(from)
	tb, ts := intBits(to)
	if fb == 0 || tb == 0 {
		return term
	}
	// value range of source included in target: identity
	if fs == ts && fb <= tb {
		return term
	}
	if !fs && ts && fb < tb {
		return term
	}
	if _, ok := constInt(term); ok && !strings.HasPrefix(term, "(") {
		// small non-negative literal: fits every type when < 128
		if n, _ := constInt(term); n >= 0 && n < 128 {
			return term
		}
	}
	m := pow2(tb)
	if fb == tb && !fs && ts {
		// unsigned -> signed of the same width: at most one wrap
		return fmt.Sprintf("(ite (< %s %s) %s (- %s %s))", term, pow2(tb-1), term, term, m)
	}
	if fb == tb && fs && !ts {
		return fmt.Sprintf("(ite (>= %s 0) %s (+ %s %s))", term, term, term, m)
	}
	if !ts {
		return fmt.Sprintf("(mod %s %s)", term, m)
	}
	h := pow2(tb - 1)
	return fmt.Sprintf("(- (mod (+ %s %s) %s) %s)", term, h, m, h)
}

func (x *Exec) tagOf(t types.Type) string {
	key := types.TypeString(t, nil)
	if id, ok := x.eng.tagIDs[key]; ok {
		return fmt.Sprintf("%d", id)
	}
	id := len(x.eng.tagIDs) + 1
	x.eng.tagIDs[key] = id
	return fmt.Sprintf("%d", id)
}

func (x *Exec) makeIface(st *State, v *Value, from, to types.Type) *Value {
	tag := x.tagOf(from)
	var val string
	terms := x.flatten(v)
	if len(terms) == 1 && sortOf(from) == "Int" {
		val = terms[0]
	} else {
		val = x.fresh(st, "box", "Int")
		st.boxes[val] = v
	}
	return &Value{K: KIface, T: to, Fs: []*Value{leaf(types.Typ[types.Int], tag), leaf(types.Typ[types.Int], val)}}
}

func (x *Exec) typeAssert(st *State, in *ssa.TypeAssert) *Value {
	v := x.get(st, in.X)
	at := in.AssertedType
	var ok string
	var val *Value
	if v.K != KIface {
		val = x.freshValue(st, at, "ta")
		ok = x.fresh(st, "taok", "Bool")
	} else if _, isI := at.Underlying().(*types.Interface); isI {
		val = retag(v, at)
		// non-nil and implements: unknown unless statically implied
		if types.Implements(in.X.Type(), at.Underlying().(*types.Interface)) {
			ok = fmt.Sprintf("(not (= %s 0))", v.Fs[0].Term)
		} else {
			ok = x.fresh(st, "taok", "Bool")
			st.assume(fmt.Sprintf("(=> %s (not (= %s 0)))", ok, v.Fs[0].Term))
		}
	} else {
		ok = fmt.Sprintf("(= %s %s)", v.Fs[0].Term, x.tagOf(at))
		if bv, found := st.boxes[v.Fs[1].Term]; found && types.Identical(bv.T, at) {
			val = bv
		} else if len(leaves(at)) == 1 && sortOf(at) == "Int" {
			val = mkValue(at, func(l Leaf) string { return v.Fs[1].Term })
		} else {
			// unboxing an unknown boxed value: deterministic function of the box id
			val = mkValue(at, func(l Leaf) string {
				fn := "unbox_" + typeKey(at) + "_" + smtName(l.Path)
				x.globalDecl(fn, fmt.Sprintf("(declare-fun %s (Int) %s)", fn, l.Sort))
				return fmt.Sprintf("(%s %s)", fn, v.Fs[1].Term)
			})
			x.typeAssume(st, val)
		}
	}
	if in.CommaOk {
		return &Value{K: KTuple, T: in.Type(), Fs: []*Value{val, leaf(types.Typ[types.Bool], ok)}}
	}
	st.assume(ok) // failed assertion panics
	return val
}

func (x *Exec) indexAddr(st *State, in *ssa.IndexAddr) *Value {
	b := x.get(st, in.X)
	i := x.get(st, in.Index)
	switch b.K {
	case KSlice:
		et := in.Type().Underlying().(*types.Pointer).Elem()
		x.boundsCheck(st, i.Term, b.Fs[2].Term)
		idx := i.Term
		if b.Fs[1].Term != "0" {
			idx = fmt.Sprintf("(sidx %s %s)", b.Fs[1].Term, i.Term)
		}
		return &Value{K: KPtr, T: in.Type(), P: &Pointer{Base: b.Fs[0].Term, Idx: idx, Root: et}}
	case KLeaf:
		if isAbstractBytes(b.T) {
			x.boundsCheck(st, i.Term, fmt.Sprintf("(blen %s)", b.Term))
			return &Value{K: KPtr, T: in.Type(), P: &Pointer{Base: b.Term, Idx: i.Term, Abs: true, Root: in.Type().Underlying().(*types.Pointer).Elem()}}
		}
	case KPtr:
		// pointer to array
		at, ok := b.P.Root.Underlying().(*types.Array)
		_, t := pathInfo(b.P.Root, b.P.Path)
		if a2, ok2 := t.Underlying().(*types.Array); ok2 {
			at, ok = a2, true
		}
		if ok {
			if isAbstractBytes(t) {
				// element of a byte array held by value: load id then abstract
				id := x.load(st, b.P, t)
				return &Value{K: KPtr, T: in.Type(), P: &Pointer{Base: id.Term, Idx: i.Term, Abs: true, Root: at.Elem(), AbsLoc: b.P, GhostT: t}}
			}
			if n, isC := constInt(i.Term); isC && n >= 0 && int64(n) < at.Len() && at.Len() <= 16 {
				np := *b.P
				np.Path = append(append([]Sel(nil), b.P.Path...), Sel{Field: -1, Index: n})
				return &Value{K: KPtr, T: in.Type(), P: &np}
			}
		}
	}
	x.note("indexaddr: unsupported base " + in.X.Type().String())
	return x.freshPtr(st, in.Type())
}

// boundsCheck: index in [0,len). With "checks bounds" this is an obligation, otherwise the
// out-of-range case panics and the path continues under the in-range assumption.
func (x *Exec) boundsCheck(st *State, idx, length string) {
	g := fmt.Sprintf("(and (<= 0 %s) (< %s %s))", idx, idx, length)
	if x.fc != nil && x.fc.Checks["bounds"] && st.top().depth == 0 && x.discovery == 0 {
		x.emit(st, "bounds", "bounds", "index in range", g)
	}
	st.assume(g)
}

func (x *Exec) makeSlice(st *State, t types.Type, n *Value) *Value {
	if isAbstractBytes(t) {
		id := x.fresh(st, "bytes", "Int")
		st.assume(fmt.Sprintf("(= (blen %s) %s)", id, n.Term))
		return leaf(t, id)
	}
	et := t.Underlying().(*types.Slice).Elem()
	arr := x.freshRef(st, "arr")
	// zero contents
	for _, l := range leaves(et) {
		key := "E|" + typeKey(et) + "|" + l.Path
		a := x.heapArr(st, key, l.Sort)
		z := "0"
		if l.Sort == "Bool" {
			z = "false"
		}
		x.setHeapArr(st, key, l.Sort, fmt.Sprintf("(store %s %s ((as const (Array Int %s)) %s))", a, arr, l.Sort, z))
	}
	st.assume(fmt.Sprintf("(>= %s 0)", n.Term))
	return &Value{K: KSlice, T: t, Fs: []*Value{leaf(types.Typ[types.Int], arr), leaf(types.Typ[types.Int], "0"), leaf(types.Typ[types.Int], n.Term)}}
}

func (x *Exec) sliceOp(st *State, in *ssa.Slice) *Value {
	b := x.get(st, in.X)
	lo := "0"
	if in.Low != nil {
		lo = x.get(st, in.Low).Term
	}
	switch b.K {
	case KSlice:
		hi := b.Fs[2].Term
		if in.High != nil {
			hi = x.get(st, in.High).Term
		}
		st.assume(fmt.Sprintf("(and (<= 0 %s) (<= %s %s))", lo, lo, hi))
		off := b.Fs[1].Term
		if lo != "0" {
			if off == "0" {
				off = lo
			} else {
				off = fmt.Sprintf("(+ %s %s)", off, lo)
			}
		}
		ln := hi
		if lo != "0" {
			ln = fmt.Sprintf("(- %s %s)", hi, lo)
		}
		return &Value{K: KSlice, T: in.Type(), Fs: []*Value{b.Fs[0], leaf(types.Typ[types.Int], off), leaf(types.Typ[types.Int], ln)}}
	case KLeaf:
		if isAbstractBytes(b.T) {
			hi := fmt.Sprintf("(blen %s)", b.Term)
			if in.High != nil {
				hi = x.get(st, in.High).Term
			}
			g := fmt.Sprintf("(and (<= 0 %s) (<= %s %s) (<= %s (blen %s)))", lo, lo, hi, hi, b.Term)
			if x.fc != nil && x.fc.Checks["bounds"] && st.top().depth == 0 && x.discovery == 0 {
				x.emit(st, "bounds", "bounds", "slice bounds in range", g)
			}
			st.assume(g)
			if lo == "0" && in.High == nil {
				return leaf(in.Type(), b.Term)
			}
			t := fmt.Sprintf("(bslice %s %s %s)", b.Term, lo, hi)
			st.assume(fmt.Sprintf("(= (blen %s) (- %s %s))", t, hi, lo))
			st.assume(fmt.Sprintf("(=> (and (= %s 0) (= %s (blen %s))) (= %s %s))", lo, hi, b.Term, t, b.Term))
			return leaf(in.Type(), t)
		}
	case KPtr:
		// slice of *array (varargs): copy the elements into a fresh backing array
		_, t := pathInfo(b.P.Root, b.P.Path)
		if at, ok := t.Underlying().(*types.Array); ok {
			if isAbstractBytes(t) {
				id := x.load(st, b.P, t)
				if lo == "0" && in.High == nil {
					return leaf(in.Type(), id.Term)
				}
				hi := fmt.Sprintf("%d", at.Len())
				if in.High != nil {
					hi = x.get(st, in.High).Term
				}
				tt := fmt.Sprintf("(bslice %s %s %s)", id.Term, lo, hi)
				st.assume(fmt.Sprintf("(= (blen %s) (- %s %s))", tt, hi, lo))
				return leaf(in.Type(), tt)
			}
			hiN := int(at.Len())
			hiOK := in.High == nil
			if in.High != nil {
				if hv, isC := constInt(x.get(st, in.High).Term); isC && hv >= 0 && hv <= int(at.Len()) {
					hiN, hiOK = hv, true
				}
			}
			if at.Len() <= 16 && (in.Low == nil || lo == "0") && hiOK {
				av := x.load(st, b.P, t)
				if av.K == KArr && hiN < len(av.Fs) {
					c := *av
					c.Fs = av.Fs[:hiN]
					av = &c
				}
				n := leaf(types.Typ[types.Int], fmt.Sprintf("%d", hiN))
				if isAbstractBytes(in.Type()) {
					return x.freshValue(st, in.Type(), "arrslice")
				}
				sl := x.makeSlice(st, in.Type(), n)
				if av.K == KArr {
					for i, e := range av.Fs {
						x.store(st, &Pointer{Base: sl.Fs[0].Term, Idx: fmt.Sprintf("%d", i), Root: at.Elem()}, e)
					}
				}
				return sl
			}
		}
	}
	x.note("slice: unsupported operand " + in.X.Type().String())
	return x.freshValue(st, in.Type(), "slice")
}

// ---------- maps ----------

func mapKeys(mt *types.Map) (string, string) {
	return "MD|" + typeKey(mt), "MV|" + typeKey(mt)
}

func (x *Exec) mapKeyTerm(st *State, k *Value) (string, bool) {
	ts := x.flatten(k)
	if len(ts) == 1 {
		if k.K == KLeaf && sortOf(k.T) == "Bool" {
			return fmt.Sprintf("(ite %s 1 0)", ts[0]), true
		}
		return ts[0], true
	}
	if k.K == KIface {
		// key by payload
		return ts[1], true
	}
	// composite key: pair up with an uninterpreted injective-by-congruence function
	fn := fmt.Sprintf("mapkey%d", len(ts))
	args := strings.Repeat("Int ", len(ts))
	x.globalDecl(fn, fmt.Sprintf("(declare-fun %s (%s) Int)", fn, strings.TrimSpace(args)))
	return fmt.Sprintf("(%s %s)", fn, strings.Join(ts, " ")), true
}

func (x *Exec) mapInit(st *State, mt *types.Map, ref string) {
	dk, _ := mapKeys(mt)
	d := x.heapArr(st, dk, "Bool")
	x.setHeapArr(st, dk, "Bool", fmt.Sprintf("(store %s %s ((as const (Array Int Bool)) false))", d, ref))
	st.assume(fmt.Sprintf("(= (maplen (select %s %s) %s) 0)", st.heap[dk], ref, ref))
}

func (x *Exec) lookup(st *State, in *ssa.Lookup) *Value {
	m := x.get(st, in.X)
	k := x.get(st, in.Index)
	if mt, ok := in.X.Type().Underlying().(*types.Map); ok && m.K == KLeaf {
		kt, _ := x.mapKeyTerm(st, k)
		dk, vk := mapKeys(mt)
		d := x.heapArr(st, dk, "Bool")
		present := fmt.Sprintf("(select (select %s %s) %s)", d, m.Term, kt)
		vt := mt.Elem()
		val := mkValue(vt, func(l Leaf) string {
			if refLeaf(l) {
				x.refArrays[vk+"|"+l.Path] = true
			}
			a := x.heapArr(st, vk+"|"+l.Path, l.Sort)
			z := "0"
			if l.Sort == "Bool" {
				z = "false"
			}
			return fmt.Sprintf("(ite %s (select (select %s %s) %s) %s)", present, a, m.Term, kt, z)
		})
		x.typeAssume(st, val)
		if in.CommaOk {
			return &Value{K: KTuple, T: in.Type(), Fs: []*Value{val, leaf(types.Typ[types.Bool], present)}}
		}
		return val
	}
	// string index
	if m.K == KLeaf && isAbstractBytes(m.T) {
		t := fmt.Sprintf("(bat %s %s)", m.Term, k.Term)
		st.assume(fmt.Sprintf("(and (<= 0 %s) (< %s (blen %s)))", k.Term, k.Term, m.Term))
		st.assume(fmt.Sprintf("(and (<= 0 %s) (<= %s 255))", t, t))
		return leaf(in.Type(), t)
	}
	return x.freshValue(st, in.Type(), "lookup")
}

func (x *Exec) mapUpdate(st *State, m, k, v *Value) {
	mt, ok := m.T.Underlying().(*types.Map)
	if !ok || m.K != KLeaf {
		x.note("mapupdate on unsupported value")
		return
	}
	kt, _ := x.mapKeyTerm(st, k)
	dk, vk := mapKeys(mt)
	d := x.heapArr(st, dk, "Bool")
	x.setHeapArr(st, dk, "Bool", fmt.Sprintf("(store %s %s (store (select %s %s) %s true))", d, m.Term, d, m.Term, kt))
	// cardinality: len(m) grows by one exactly when the key is new
	st.assume(fmt.Sprintf("(= (maplen (select %s %s) %s) (+ (maplen (select %s %s) %s) (ite (select (select %s %s) %s) 0 1)))", st.heap[dk], m.Term, m.Term, d, m.Term, m.Term, d, m.Term, kt))
	st.assume(fmt.Sprintf("(>= (maplen (select %s %s) %s) 0)", d, m.Term, m.Term))
	terms := x.flatten(v)
	ls := leaves(mt.Elem())
	if len(terms) != len(ls) {
		x.note("mapupdate: leaf mismatch")
		return
	}
	for i, l := range ls {
		key := vk + "|" + l.Path
		a := x.heapArr(st, key, l.Sort)
		x.setHeapArr(st, key, l.Sort, fmt.Sprintf("(store %s %s (store (select %s %s) %s %s))", a, m.Term, a, m.Term, kt, terms[i]))
	}
}

func (x *Exec) mapDelete(st *State, m, k *Value) {
	mt, ok := m.T.Underlying().(*types.Map)
	if !ok || m.K != KLeaf {
		return
	}
	kt, _ := x.mapKeyTerm(st, k)
	dk, _ := mapKeys(mt)
	d := x.heapArr(st, dk, "Bool")
	x.setHeapArr(st, dk, "Bool", fmt.Sprintf("(store %s %s (store (select %s %s) %s false))", d, m.Term, d, m.Term, kt))
	st.assume(fmt.Sprintf("(= (maplen (select %s %s) %s) (- (maplen (select %s %s) %s) (ite (select (select %s %s) %s) 1 0)))", st.heap[dk], m.Term, m.Term, d, m.Term, m.Term, d, m.Term, kt))
	st.assume(fmt.Sprintf("(=> (select (select %s %s) %s) (>= (maplen (select %s %s) %s) 1))", d, m.Term, kt, d, m.Term, m.Term))
	st.assume(fmt.Sprintf("(>= (maplen (select %s %s) %s) 0)", d, m.Term, m.Term))
}

func (x *Exec) rangeInit(st *State, in *ssa.Range) *Value {
	m := x.get(st, in.X)
	id := x.fresh(st, "iter", "Int")
	it := &mapIter{}
	if mt, ok := in.X.Type().Underlying().(*types.Map); ok {
		it.m = m
		it.kt, it.vt = mt.Key(), mt.Elem()
		vis := x.fresh(st, "visited", "(Array Int Bool)")
		st.assume(fmt.Sprintf("(= %s ((as const (Array Int Bool)) false))", vis))
		it.visited = vis
	} else {
		it.isStr = true
		it.m = m
	}
	st.iters[id] = it
	// expose the visited set as pseudo-ghost for invariants: $visited<n>, n = ordinal of the range statement
	n := x.rangeOrdinal(in)
	st.ghost[fmt.Sprintf("$visited%d", n)] = leaf(nil, it.visited)
	st.ghost[fmt.Sprintf("$iter%d", n)] = leaf(nil, id)
	return leaf(in.Type(), id)
}

func (x *Exec) rangeNext(st *State, in *ssa.Next) *Value {
	itv := x.get(st, in.Iter)
	it := st.iters[itv.Term]
	tt := in.Type().(*types.Tuple)
	ok := x.fresh(st, "nextok", "Bool")
	if it == nil || it.isStr {
		return &Value{K: KTuple, T: in.Type(), Fs: []*Value{leaf(types.Typ[types.Bool], ok), x.freshValue(st, tt.At(1).Type(), "k"), x.freshValue(st, tt.At(2).Type(), "v")}}
	}
	mt := it.m.T.Underlying().(*types.Map)
	dk, vk := mapKeys(mt)
	d := x.heapArr(st, dk, "Bool")
	// the visited set may have been havocked by a loop cut: use the current ghost
	vis := it.visited
	rn := 0
	if rin, isR := in.Iter.(*ssa.Range); isR {
		rn = x.rangeOrdinal(rin)
	}
	vname := fmt.Sprintf("$visited%d", rn)
	if g, okg := st.ghost[vname]; okg {
		vis = g.Term
	}
	kv := x.freshValue(st, mt.Key(), "rk")
	kt, _ := x.mapKeyTerm(st, kv)
	// if ok: key in dom and not visited; else all dom keys visited
	st.assume(fmt.Sprintf("(=> %s (and (select (select %s %s) %s) (not (select %s %s))))", ok, d, it.m.Term, kt, vis, kt))
	st.assume(fmt.Sprintf("(=> (not %s) (forall ((qk Int)) (=> (select (select %s %s) qk) (select %s qk))))", ok, d, it.m.Term, vis))
	nv := x.fresh(st, "visited", "(Array Int Bool)")
	st.assume(fmt.Sprintf("(= %s (ite %s (store %s %s true) %s))", nv, ok, vis, kt, vis))
	nit := *it
	nit.visited = nv
	st.iters[itv.Term] = &nit
	st.ghost[vname] = leaf(nil, nv)
	st.written["G|"+vname] = true
	val := mkValue(mt.Elem(), func(l Leaf) string {
		a := x.heapArr(st, vk+"|"+l.Path, l.Sort)
		return fmt.Sprintf("(select (select %s %s) %s)", a, it.m.Term, kt)
	})
	x.typeAssume(st, val)
	var kOut, vOut *Value = kv, val
	if !types.Identical(tt.At(1).Type(), mt.Key()) {
		kOut = x.zeroValue(st, tt.At(1).Type())
	}
	if !types.Identical(tt.At(2).Type(), mt.Elem()) {
		vOut = x.zeroValue(st, tt.At(2).Type())
	}
	return &Value{K: KTuple, T: in.Type(), Fs: []*Value{leaf(types.Typ[types.Bool], ok), kOut, vOut}}
}

// rangeOrdinal: 1-based ordinal of a range-over-map statement in its function (source order).
func (x *Exec) rangeOrdinal(in *ssa.Range) int {
	n := 0
	for _, b := range in.Parent().Blocks {
		for _, ins := range b.Instrs {
			if r, ok := ins.(*ssa.Range); ok {
				if _, isMap := r.X.Type().Underlying().(*types.Map); isMap {
					n++
				}
				if r == in {
					return n
				}
			}
		}
	}
	return n
}

// shortType: a stable short name of a type for obligation labels.
func shortType(t types.Type) string {
	return types.TypeString(t, func(p *types.Package) string { return p.Name() })
}
