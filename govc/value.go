package main

import (
	"fmt"
	"go/types"
	"strings"
)

// Kind of a symbolic value.
type Kind int

const (
	KLeaf   Kind = iota // one SMT term (Int or Bool)
	KStruct             // Fs = fields
	KSlice              // Fs = [arr, off, len]
	KIface              // Fs = [tag, val]
	KTuple              // Fs = elements
	KPtr                // P
	KFunc               // Fn
	KArr                // Fs = elements (small fixed arrays)
)

// Value is a symbolic Go value: a tree whose leaves are SMT terms.
type Value struct {
	K    Kind
	T    types.Type
	Term string
	Fs   []*Value
	P    *Pointer
	Fn   *Closure
}

// Pointer is an executor-level pointer: a root plus a path of selections.
type Pointer struct {
	Cell *Cell  // local cell root (nil otherwise)
	Base string // heap object ref (Obj root) or backing-array ref (Elem root)
	Idx  string // element index for Elem root ("" for Obj root)
	Root types.Type
	Path []Sel
	Nil  bool // literal nil pointer
	Ghost string // ghost field name ("$name") of the object at Base
	GhostT types.Type
	AbsLoc *Pointer // location holding the byte-array id (for element stores)
	Abs  bool // element of an abstract byte string (Base=id, Idx=index)
}

// Sel is a field selection (Field>=0) or a constant array index (Field==-1, Index).
type Sel struct {
	Field int
	Index int
}

// Cell is a local variable cell (an ssa.Alloc that is not heap-allocated).
type Cell struct {
	ID   int
	Name string
	T    types.Type
}

type Closure struct {
	FnName string
	Fn     interface{} // *ssa.Function
	Binds  []*Value
}

func leaf(t types.Type, term string) *Value { return &Value{K: KLeaf, T: t, Term: term} }

// Leaf describes one SMT-level component of a Go type.
type Leaf struct {
	Path string
	Sort string // "Int" or "Bool"
	T    types.Type
	Role string // "", "arr","off","len","tag","val"
}

func isByteSlice(t types.Type) bool {
	if s, ok := t.Underlying().(*types.Slice); ok {
		if b, ok := s.Elem().Underlying().(*types.Basic); ok && (b.Kind() == types.Uint8) {
			return true
		}
	}
	return false
}

func isByteArray(t types.Type) bool {
	if s, ok := t.Underlying().(*types.Array); ok {
		if b, ok := s.Elem().Underlying().(*types.Basic); ok && (b.Kind() == types.Uint8) {
			return true
		}
	}
	return false
}

func isTimeTime(t types.Type) bool {
	if n, ok := t.(*types.Named); ok {
		o := n.Obj()
		return o.Pkg() != nil && o.Pkg().Path() == "time" && o.Name() == "Time"
	}
	return false
}

func isNamed(t types.Type, pkg, name string) bool {
	if p, ok := t.(*types.Pointer); ok {
		t = p.Elem()
	}
	if n, ok := t.(*types.Named); ok {
		o := n.Obj()
		return o.Pkg() != nil && o.Pkg().Path() == pkg && o.Name() == name
	}
	return false
}

// isAbstractBytes: types modelled as a single content id.
func isAbstractBytes(t types.Type) bool {
	if isByteSlice(t) || isByteArray(t) {
		return true
	}
	if b, ok := t.Underlying().(*types.Basic); ok && b.Info()&types.IsString != 0 {
		return true
	}
	return false
}

// opaque struct types modelled as a single Int (identity only).
func isOpaqueStruct(t types.Type) bool {
	n, ok := t.(*types.Named)
	if !ok {
		return false
	}
	o := n.Obj()
	if o.Pkg() == nil {
		return false
	}
	switch o.Pkg().Path() {
	case "sync":
		return true
	case "sync/atomic":
		return true
	case "time":
		return o.Name() == "Time"
	}
	return false
}

func isLeafType(t types.Type) bool {
	if isAbstractBytes(t) || isOpaqueStruct(t) {
		return true
	}
	switch u := t.Underlying().(type) {
	case *types.Basic:
		return true
	case *types.Pointer, *types.Map, *types.Chan, *types.Signature:
		_ = u
		return true
	case *types.Array:
		return u.Len() > 16
	case *types.TypeParam:
		return true
	}
	return false
}

func sortOf(t types.Type) string {
	if b, ok := t.Underlying().(*types.Basic); ok && b.Info()&types.IsBoolean != 0 {
		return "Bool"
	}
	return "Int"
}

var leafCache = map[string][]Leaf{}

// leaves flattens a type into its SMT leaves (struct fields by value are flattened).
func leaves(t types.Type) []Leaf {
	key := types.TypeString(t, nil)
	if l, ok := leafCache[key]; ok {
		return l
	}
	leafCache[key] = nil // recursion guard (recursive by-value types are impossible in Go)
	var out []Leaf
	switch {
	case isLeafType(t):
		out = []Leaf{{Path: "", Sort: sortOf(t), T: t}}
	default:
		switch u := t.Underlying().(type) {
		case *types.Struct:
			for i := 0; i < u.NumFields(); i++ {
				f := u.Field(i)
				for _, l := range leaves(f.Type()) {
					p := f.Name()
					if l.Path != "" {
						p += "." + l.Path
					}
					out = append(out, Leaf{Path: p, Sort: l.Sort, T: l.T, Role: l.Role})
				}
			}
		case *types.Slice:
			out = []Leaf{{Path: "$arr", Sort: "Int", T: t, Role: "arr"}, {Path: "$off", Sort: "Int", T: t, Role: "off"}, {Path: "$len", Sort: "Int", T: t, Role: "len"}}
		case *types.Interface:
			out = []Leaf{{Path: "$tag", Sort: "Int", T: t, Role: "tag"}, {Path: "$val", Sort: "Int", T: t, Role: "val"}}
		case *types.Array:
			for i := 0; i < int(u.Len()); i++ {
				for _, l := range leaves(u.Elem()) {
					p := fmt.Sprintf("%d", i)
					if l.Path != "" {
						p += "." + l.Path
					}
					out = append(out, Leaf{Path: p, Sort: l.Sort, T: l.T, Role: l.Role})
				}
			}
		case *types.Tuple:
			for i := 0; i < u.Len(); i++ {
				for _, l := range leaves(u.At(i).Type()) {
					p := fmt.Sprintf("%d", i)
					if l.Path != "" {
						p += "." + l.Path
					}
					out = append(out, Leaf{Path: p, Sort: l.Sort, T: l.T, Role: l.Role})
				}
			}
		default:
			out = []Leaf{{Path: "", Sort: "Int", T: t}}
		}
	}
	leafCache[key] = out
	return out
}

// mkValue builds a Value of type t, asking gen for each leaf term (called in leaves(t) order).
func mkValue(t types.Type, gen func(l Leaf) string) *Value {
	ls := leaves(t)
	i := 0
	return mkValueRec(t, ls, &i, gen)
}

func mkValueRec(t types.Type, ls []Leaf, i *int, gen func(l Leaf) string) *Value {
	if isLeafType(t) {
		l := ls[*i]
		*i++
		term := gen(l)
		if _, ok := t.Underlying().(*types.Pointer); ok {
			return ptrFromTerm(t, term)
		}
		return leaf(t, term)
	}
	switch u := t.Underlying().(type) {
	case *types.Struct:
		v := &Value{K: KStruct, T: t}
		for k := 0; k < u.NumFields(); k++ {
			v.Fs = append(v.Fs, mkValueRec(u.Field(k).Type(), ls, i, gen))
		}
		return v
	case *types.Slice:
		v := &Value{K: KSlice, T: t}
		for k := 0; k < 3; k++ {
			l := ls[*i]
			*i++
			v.Fs = append(v.Fs, leaf(types.Typ[types.Int], gen(l)))
		}
		return v
	case *types.Interface:
		v := &Value{K: KIface, T: t}
		for k := 0; k < 2; k++ {
			l := ls[*i]
			*i++
			v.Fs = append(v.Fs, leaf(types.Typ[types.Int], gen(l)))
		}
		return v
	case *types.Array:
		v := &Value{K: KArr, T: t}
		for k := 0; k < int(u.Len()); k++ {
			v.Fs = append(v.Fs, mkValueRec(u.Elem(), ls, i, gen))
		}
		return v
	case *types.Tuple:
		v := &Value{K: KTuple, T: t}
		for k := 0; k < u.Len(); k++ {
			v.Fs = append(v.Fs, mkValueRec(u.At(k).Type(), ls, i, gen))
		}
		return v
	}
	l := ls[*i]
	*i++
	return leaf(t, gen(l))
}

func ptrFromTerm(t types.Type, term string) *Value {
	pt := t.Underlying().(*types.Pointer)
	return &Value{K: KPtr, T: t, P: &Pointer{Base: term, Root: pt.Elem()}}
}

// flatten returns the leaf terms of v in leaves(v.T) order.
func (x *Exec) flatten(v *Value) []string {
	var out []string
	x.flattenInto(v, &out)
	return out
}

func (x *Exec) flattenInto(v *Value, out *[]string) {
	switch v.K {
	case KLeaf:
		*out = append(*out, v.Term)
	case KPtr:
		*out = append(*out, x.ptrTerm(v.P))
	case KFunc:
		*out = append(*out, x.funcTerm(v))
	default:
		for _, f := range v.Fs {
			x.flattenInto(f, out)
		}
	}
}

func smtName(s string) string {
	s = strings.ReplaceAll(s, "*", "p_")
	s = strings.ReplaceAll(s, "[", "_L")
	s = strings.ReplaceAll(s, "]", "_R")
	var sb strings.Builder
	for _, r := range s {
		switch {
		case r >= 'a' && r <= 'z', r >= 'A' && r <= 'Z', r >= '0' && r <= '9', r == '_', r == '.', r == '$', r == '-':
			sb.WriteRune(r)
		case r == ' ':
		default:
			sb.WriteByte('_')
		}
	}
	return sb.String()
}

func typeKey(t types.Type) string {
	return smtName(types.TypeString(t, func(p *types.Package) string {
		path := p.Path()
		if strings.HasPrefix(path, "github.com/tendermint/tendermint/") {
			return strings.ReplaceAll(strings.TrimPrefix(path, "github.com/tendermint/tendermint/"), "/", ".")
		}
		return strings.ReplaceAll(path, "/", ".")
	}))
}

func (v *Value) String() string {
	switch v.K {
	case KLeaf:
		return v.Term
	case KPtr:
		if v.P.Cell != nil {
			return fmt.Sprintf("&cell%d%v", v.P.Cell.ID, v.P.Path)
		}
		return fmt.Sprintf("&(%s %s)%v", v.P.Base, v.P.Idx, v.P.Path)
	case KFunc:
		return "func:" + v.Fn.FnName
	}
	var parts []string
	for _, f := range v.Fs {
		parts = append(parts, f.String())
	}
	return "{" + strings.Join(parts, ", ") + "}"
}
