package main

import (
	"fmt"
	"go/token"
	"go/types"
	"sort"
	"strings"

	"golang.org/x/tools/go/ssa"
)

// Determinism as a syntactic frame obligation (`checks deterministic`): over the static call graph from the
// function (module functions and closures), there is no clock, no randomness, no map iteration, no goroutine,
// channel or select, and no dynamic call outside an allow-list of pure interfaces.
func (e *Engine) determinismViolations(root *ssa.Function) []string {
	seen := map[*ssa.Function]bool{}
	var out []string
	var visit func(fn *ssa.Function, path string)
	visit = func(fn *ssa.Function, path string) {
		if fn == nil || seen[fn] {
			return
		}
		seen[fn] = true
		if fn.Blocks == nil {
			return
		}
		here := path + " > " + fn.Name()
		for _, b := range fn.Blocks {
			for _, ins := range b.Instrs {
				switch in := ins.(type) {
				case *ssa.Range:
					if _, isMap := in.X.Type().Underlying().(*types.Map); isMap {
						out = append(out, here+": iteration over a map")
					}
				case *ssa.Select:
					out = append(out, here+": select")
				case *ssa.Go:
					out = append(out, here+": goroutine spawn")
				case *ssa.UnOp:
					if in.Op == token.ARROW {
						out = append(out, here+": channel receive")
					}
				case *ssa.Send:
					out = append(out, here+": channel send")
				case *ssa.MakeClosure:
					visit(in.Fn.(*ssa.Function), here)
				case *ssa.Call, *ssa.Defer:
					var cc *ssa.CallCommon
					if c, ok := in.(*ssa.Call); ok {
						cc = &c.Call
					} else {
						cc = &in.(*ssa.Defer).Call
					}
					if cc.IsInvoke() {
						pp := ""
						if cc.Method.Pkg() != nil {
							pp = cc.Method.Pkg().Path()
						}
						stdlib := pp != "" && !strings.Contains(strings.SplitN(pp, "/", 2)[0], ".")
						if !(e.pureIface(cc.Method, cc.Value.Type()) || pp == "" || purePkgs[pp] || stdlib || strings.Contains(pp, "/proto/tendermint/") || strings.HasSuffix(pp, "/libs/protoio") || strings.HasSuffix(pp, "/proto") || strings.Contains(pp, "gogoproto") || strings.Contains(pp, "protobuf")) {
							out = append(out, here+": dynamic call "+cc.Method.FullName())
						}
						continue
					}
					if _, isB := cc.Value.(*ssa.Builtin); isB {
						continue
					}
					callee := cc.StaticCallee()
					if callee == nil {
						if _, isMC := cc.Value.(*ssa.MakeClosure); !isMC && !localClosureVar(fn, cc.Value) {
							out = append(out, here+": call through a function value")
						}
						continue
					}
					name := callee.String()
					switch {
					case name == "time.Now" || name == "time.Since" || name == "time.Until" || strings.HasSuffix(name, "/types/time.Now"):
						out = append(out, here+": reads the clock ("+name+")")
					case strings.HasPrefix(name, "math/rand.") || strings.HasPrefix(name, "(*math/rand.") || strings.HasPrefix(name, "crypto/rand.") || strings.Contains(name, "libs/rand."):
						out = append(out, here+": randomness ("+name+")")
					case strings.HasPrefix(name, "os.") || strings.HasPrefix(name, "runtime.Num"):
						out = append(out, here+": environment ("+name+")")
					}
					if inModule(callee) {
						visit(callee, here)
					}
				}
			}
		}
	}
	visit(root, "")
	sort.Strings(out)
	if len(out) > 12 {
		out = append(out[:12], fmt.Sprintf("… %d more", len(out)-12))
	}
	return out
}

// localClosureVar: the called value is loaded from a local variable (of this function or, for a closure, of its
// parent) that only ever holds closures created in place — those closures are visited through their MakeClosure.
func localClosureVar(fn *ssa.Function, v ssa.Value) bool {
	u, ok := v.(*ssa.UnOp)
	if !ok || u.Op != token.MUL {
		return false
	}
	var cell ssa.Value = u.X
	owner := fn
	if fv, isFV := cell.(*ssa.FreeVar); isFV && fn.Parent() != nil {
		// captured variable: find the binding in the parent's MakeClosure
		for _, b := range fn.Parent().Blocks {
			for _, ins := range b.Instrs {
				if mc, ok := ins.(*ssa.MakeClosure); ok && mc.Fn == fn {
					for i, f := range fn.FreeVars {
						if f == fv && i < len(mc.Bindings) {
							cell = mc.Bindings[i]
							owner = fn.Parent()
						}
					}
				}
			}
		}
	}
	a, ok := cell.(*ssa.Alloc)
	if !ok {
		return false
	}
	n := 0
	for _, b := range owner.Blocks {
		for _, ins := range b.Instrs {
			if st, ok := ins.(*ssa.Store); ok && st.Addr == a {
				if _, isMC := st.Val.(*ssa.MakeClosure); !isMC {
					if _, isFn := st.Val.(*ssa.Function); !isFn {
						return false
					}
				}
				n++
			}
		}
	}
	return n > 0
}
