package main

import (
	"go/token"
	"fmt"
	"go/types"
	"regexp"
	"sort"
	"strings"

	"golang.org/x/tools/go/ssa"
)

// Frame is one (possibly inlined) function activation.
type Frame struct {
	fn     *ssa.Function
	regs   map[ssa.Value]*Value
	defers []*deferred
	depth  int
}

type deferred struct {
	call *ssa.CallCommon
	fnv  *Value
	args []*Value
	pos  ssa.Instruction
}

type mapIter struct {
	m       *Value // map value (leaf ref) or nil for string
	visited string // SMT term: Array K Bool
	kt, vt  types.Type
	isStr   bool
}

// State is one symbolic path state.
type State struct {
	frames     []*Frame
	cells      map[*Cell]*Value
	promo      map[*Cell]string // promoted cells -> heap ref
	heap       map[string]string
	epoch      string
	epochChain []epochRec // partial havocs: keys of the excepted packages keep the array of the previous epoch
	ghost      map[string]*Value
	pc         []string
	decls      []string
	cut        map[*ssa.BasicBlock]bool
	written    map[string]bool
	wcells     map[*Cell]bool
	boxes      map[string]*Value
	iters      map[string]*mapIter
	allocT     string
	locks      string // SMT term: Array Int Int (0 none, 1 read, 2 write)
	notes      []string
	dead       bool
	freshRefs  []string
	private    []*Pointer // heap cells of this activation tree no callee can reach (see privateAlloc): survive callee frames
	privMaps   []privMap  // maps made by this activation tree whose reference never leaves it (see privateMap)
	trace      []string
	curBlock   *ssa.BasicBlock
	specHeap   *specInst // non-nil while evaluating a spec function body: heap arrays are formal parameters
}

func (st *State) clone() *State {
	n := &State{epoch: st.epoch, epochChain: st.epochChain, allocT: st.allocT, locks: st.locks, specHeap: st.specHeap, curBlock: st.curBlock}
	n.frames = make([]*Frame, len(st.frames))
	for i, f := range st.frames {
		nf := &Frame{fn: f.fn, depth: f.depth, regs: make(map[ssa.Value]*Value, len(f.regs))}
		for k, v := range f.regs {
			nf.regs[k] = v
		}
		nf.defers = append([]*deferred(nil), f.defers...)
		n.frames[i] = nf
	}
	n.cells = make(map[*Cell]*Value, len(st.cells))
	for k, v := range st.cells {
		n.cells[k] = v
	}
	n.promo = make(map[*Cell]string, len(st.promo))
	for k, v := range st.promo {
		n.promo[k] = v
	}
	n.heap = make(map[string]string, len(st.heap))
	for k, v := range st.heap {
		n.heap[k] = v
	}
	n.ghost = make(map[string]*Value, len(st.ghost))
	for k, v := range st.ghost {
		n.ghost[k] = v
	}
	n.pc = append([]string(nil), st.pc...)
	n.decls = append([]string(nil), st.decls...)
	n.cut = make(map[*ssa.BasicBlock]bool, len(st.cut))
	for k, v := range st.cut {
		n.cut[k] = v
	}
	n.written = make(map[string]bool, len(st.written))
	for k, v := range st.written {
		n.written[k] = v
	}
	n.wcells = make(map[*Cell]bool, len(st.wcells))
	for k, v := range st.wcells {
		n.wcells[k] = v
	}
	n.boxes = make(map[string]*Value, len(st.boxes))
	for k, v := range st.boxes {
		n.boxes[k] = v
	}
	n.iters = make(map[string]*mapIter, len(st.iters))
	for k, v := range st.iters {
		n.iters[k] = v
	}
	n.notes = append([]string(nil), st.notes...)
	n.freshRefs = append([]string(nil), st.freshRefs...)
	n.private = append([]*Pointer(nil), st.private...)
	n.privMaps = append([]privMap(nil), st.privMaps...)
	n.trace = append([]string(nil), st.trace...)
	return n
}

func (st *State) top() *Frame { return st.frames[len(st.frames)-1] }

func (st *State) assume(t string) {
	if t == "true" {
		return
	}
	st.pc = append(st.pc, t)
}

// ---- fresh names, declarations ----

func (x *Exec) fresh(st *State, prefix, sort string) string {
	x.nfresh++
	name := fmt.Sprintf("%s!%d", smtName(prefix), x.nfresh)
	st.decls = append(st.decls, fmt.Sprintf("(declare-const %s %s)", name, sort))
	return name
}

func (x *Exec) globalDecl(name, decl string) {
	if !x.globalSet[name] {
		x.globalSet[name] = true
		x.globals = append(x.globals, decl)
	}
}

// freshValue makes an unconstrained value of type t (with type range assumptions).
func (x *Exec) freshValue(st *State, t types.Type, prefix string) *Value {
	v := mkValue(t, func(l Leaf) string {
		p := prefix
		if l.Path != "" {
			p += "_" + l.Path
		}
		return x.fresh(st, p, l.Sort)
	})
	x.typeAssume(st, v)
	return v
}

func intRange(b *types.Basic) (lo, hi string, ok bool) {
	switch b.Kind() {
	case types.Int, types.Int64:
		return "(- 9223372036854775808)", "9223372036854775807", true
	case types.Int32:
		return "(- 2147483648)", "2147483647", true
	case types.Int16:
		return "(- 32768)", "32767", true
	case types.Int8:
		return "(- 128)", "127", true
	case types.Uint, types.Uint64, types.Uintptr:
		return "0", "18446744073709551615", true
	case types.Uint32:
		return "0", "4294967295", true
	case types.Uint16:
		return "0", "65535", true
	case types.Uint8:
		return "0", "255", true
	}
	return "", "", false
}

func (x *Exec) typeAssume(st *State, v *Value) {
	switch v.K {
	case KLeaf:
		x.leafAssume(st, v.T, v.Term)
	case KSlice:
		st.assume(fmt.Sprintf("(>= %s 0)", v.Fs[1].Term))
		st.assume(fmt.Sprintf("(>= %s 0)", v.Fs[2].Term))
		st.assume(fmt.Sprintf("(=> (= %s 0) (= %s 0))", v.Fs[0].Term, v.Fs[2].Term))
		st.assume(fmt.Sprintf("(>= %s 0)", v.Fs[0].Term))
	case KIface:
		st.assume(fmt.Sprintf("(>= %s 0)", v.Fs[0].Term))
		st.assume(fmt.Sprintf("(=> (= %s 0) (= %s 0))", v.Fs[0].Term, v.Fs[1].Term))
	case KPtr:
		if v.P.Cell == nil && !v.P.Nil {
			st.assume(fmt.Sprintf("(>= %s 0)", v.P.Base))
		}
	default:
		for _, f := range v.Fs {
			x.typeAssume(st, f)
		}
	}
}

func (x *Exec) leafAssume(st *State, t types.Type, term string) {
	if t == nil {
		return
	}
	if isAbstractBytes(t) {
		st.assume(fmt.Sprintf("(>= (blen %s) 0)", term))
		if a, ok := t.Underlying().(*types.Array); ok {
			st.assume(fmt.Sprintf("(= (blen %s) %d)", term, a.Len()))
		}
		return
	}
	if isOpaqueStruct(t) {
		return
	}
	switch u := t.Underlying().(type) {
	case *types.Basic:
		if lo, hi, ok := intRange(u); ok {
			st.assume(fmt.Sprintf("(and (<= %s %s) (<= %s %s))", lo, term, term, hi))
		}
	case *types.Pointer, *types.Map, *types.Chan:
		st.assume(fmt.Sprintf("(>= %s 0)", term))
	}
}

// ---- heap ----

func (x *Exec) arrDecl(name, sort string, elem bool) string {
	if elem {
		return fmt.Sprintf("(declare-const %s (Array Int (Array Int %s)))", name, sort)
	}
	return fmt.Sprintf("(declare-const %s (Array Int %s))", name, sort)
}

// heapArr returns the current SMT term of heap array key (declaring the initial version lazily).
// key: "F|<type>|<path>" or "E|<type>|<path>" or "MD|..", "MV|..".
func (x *Exec) heapArr(st *State, key, sort string) string {
	if t, ok := st.heap[key]; ok {
		return t
	}
	if st.specHeap != nil {
		pfx := st.specHeap.prefix
		if pfx == "" {
			pfx = "hp_"
		}
		nm := "|" + pfx + smtName(key) + "|"
		st.specHeap.heapKeys = append(st.specHeap.heapKeys, key)
		st.specHeap.heapSort[key] = sort
		st.heap[key] = nm
		x.arrSort[key] = sort
		return nm
	}
	name := "H_" + smtName(key)
	if ep := st.epochOf(key); ep != "" {
		name += "@" + ep
	}
	name = "|" + name + "|"
	x.globalDecl(name, x.arrDecl(name, sort, strings.HasPrefix(key, "E|") || strings.HasPrefix(key, "MD|") || strings.HasPrefix(key, "MV|")))
	x.arrSort[key] = sort
	st.heap[key] = name
	return name
}

func (x *Exec) setHeapArr(st *State, key, sort, term string) {
	// name the new version to keep terms small
	elem := strings.HasPrefix(key, "E|") || strings.HasPrefix(key, "MD|") || strings.HasPrefix(key, "MV|")
	x.nfresh++
	name := fmt.Sprintf("|H_%s!%d|", smtName(key), x.nfresh)
	st.decls = append(st.decls, x.arrDecl(name, sort, elem))
	st.pc = append(st.pc, fmt.Sprintf("(= %s %s)", name, term))
	st.heap[key] = name
	st.written[key] = true
	x.arrSort[key] = sort
}

func (x *Exec) havocHeapArr(st *State, key string) {
	sort := x.arrSort[key]
	if sort == "" {
		sort = "Int"
	}
	elem := strings.HasPrefix(key, "E|") || strings.HasPrefix(key, "MD|") || strings.HasPrefix(key, "MV|")
	x.nfresh++
	name := fmt.Sprintf("|H_%s!%d|", smtName(key), x.nfresh)
	st.decls = append(st.decls, x.arrDecl(name, sort, elem))
	st.heap[key] = name
	st.written[key] = true
}

// havocAllHeap forgets everything about the heap (not ghost state, not local cells).
type epochRec struct {
	epoch, prev string
	except      []string
}

// epochOf: the epoch whose array a not yet materialised key denotes (partial havocs leave excepted keys behind).
func (st *State) epochOf(key string) string {
	ep := st.epoch
	for i := len(st.epochChain) - 1; i >= 0; i-- {
		r := st.epochChain[i]
		if r.epoch != ep || !keyInPkgs(key, r.except) {
			break
		}
		ep = r.prev
	}
	return ep
}

var exceptRes = map[string]*regexp.Regexp{}

// keyInPkgs: the heap array key belongs to a type declared in one of the packages (module-relative, dotted).
func keyInPkgs(key string, pkgs []string) bool {
	parts := strings.SplitN(key, "|", 3)
	if len(parts) < 2 {
		return false
	}
	for _, p := range pkgs {
		re := exceptRes[p]
		if re == nil {
			// p is either a package ("types": every type of it) or one type ("statesync.snapshot")
			re = regexp.MustCompile(`^(?:p_|_L[0-9]*_R)*(?:` + regexp.QuoteMeta(p) + `\.[A-Za-z0-9_]+|` + regexp.QuoteMeta(p) + `)$`)
			exceptRes[p] = re
		}
		if re.MatchString(parts[1]) {
			return true
		}
	}
	return false
}

// havocExcept: everything may have changed except the state of types declared in the given packages.
func (x *Exec) havocExcept(st *State, pkgs []string) {
	defer x.savePrivate(st)()
	keep := map[string]string{}
	for k, name := range st.heap {
		if keyInPkgs(k, pkgs) {
			keep[k] = name
		} else {
			st.written[k] = true
		}
	}
	st.written["*|"+strings.Join(pkgs, ",")] = true
	prev := st.epoch
	x.nfresh++
	st.epoch = fmt.Sprintf("e%d", x.nfresh)
	st.epochChain = append(append([]epochRec(nil), st.epochChain...), epochRec{epoch: st.epoch, prev: prev, except: pkgs})
	st.heap = keep
}

func (x *Exec) havocAllHeap(st *State) {
	defer x.savePrivate(st)()
	for k := range st.heap {
		st.written[k] = true
	}
	st.written["*"] = true
	st.heap = map[string]string{}
	x.nfresh++
	st.epoch = fmt.Sprintf("e%d", x.nfresh)
	st.epochChain = nil
}

// pathInfo resolves a selection path from root type: returns leaf-path prefix and the type there.
func pathInfo(root types.Type, path []Sel) (string, types.Type) {
	t := root
	var parts []string
	for _, s := range path {
		if s.Field >= 0 {
			stt := t.Underlying().(*types.Struct)
			f := stt.Field(s.Field)
			parts = append(parts, f.Name())
			t = f.Type()
		} else {
			a := t.Underlying().(*types.Array)
			parts = append(parts, fmt.Sprintf("%d", s.Index))
			t = a.Elem()
		}
	}
	return strings.Join(parts, "."), t
}

func joinPath(a, b string) string {
	if a == "" {
		return b
	}
	if b == "" {
		return a
	}
	return a + "." + b
}

// navigate returns the sub-value of v at path.
func navigate(v *Value, path []Sel) *Value {
	for _, s := range path {
		if v.K == KLeaf || v.K == KPtr {
			return nil
		}
		if s.Field >= 0 {
			v = v.Fs[s.Field]
		} else {
			v = v.Fs[s.Index]
		}
	}
	return v
}

func updateAt(v *Value, path []Sel, nv *Value) *Value {
	if len(path) == 0 {
		return nv
	}
	c := *v
	c.Fs = append([]*Value(nil), v.Fs...)
	i := path[0].Field
	if i < 0 {
		i = path[0].Index
	}
	c.Fs[i] = updateAt(v.Fs[i], path[1:], nv)
	return &c
}

// load reads the value of type t stored at pointer p.
func (x *Exec) load(st *State, p *Pointer, t types.Type) *Value {
	if p.Nil {
		st.dead = true // nil dereference: the program panics here
		return x.freshValue(st, t, "nilderef")
	}
	if p.Ghost != "" {
		key := "F|" + typeKey(p.Root) + "|" + p.Ghost
		v := mkValue(t, func(l Leaf) string {
			return fmt.Sprintf("(select %s %s)", x.heapArr(st, key+l.Path, l.Sort), p.Base)
		})
		return v
	}
	if p.Abs {
		term := fmt.Sprintf("(bat %s %s)", p.Base, p.Idx)
		st.assume(fmt.Sprintf("(and (<= 0 %s) (<= %s 255))", term, term))
		return leaf(t, term)
	}
	if p.Cell != nil {
		if ref, ok := st.promo[p.Cell]; ok {
			return x.load(st, &Pointer{Base: ref, Root: p.Cell.T, Path: p.Path}, t)
		}
		cv := st.cells[p.Cell]
		if cv == nil {
			cv = x.zeroValue(st, p.Cell.T)
			st.cells[p.Cell] = cv
		}
		v := navigate(cv, p.Path)
		if v == nil {
			return x.freshValue(st, t, "opaque")
		}
		return v
	}
	prefix, _ := pathInfo(p.Root, p.Path)
	kind := "F|"
	if p.Idx != "" {
		kind = "E|"
	}
	v := mkValue(t, func(l Leaf) string {
		key := kind + typeKey(p.Root) + "|" + joinPath(prefix, l.Path)
		if refLeaf(l) {
			x.refArrays[key] = true
		}
		arr := x.heapArr(st, key, l.Sort)
		if p.Idx != "" {
			return fmt.Sprintf("(select (select %s %s) %s)", arr, p.Base, p.Idx)
		}
		return fmt.Sprintf("(select %s %s)", arr, p.Base)
	})
	x.typeAssume(st, v)
	return v
}

func (x *Exec) store(st *State, p *Pointer, v *Value) {
	if p.Nil {
		st.dead = true
		return
	}
	if p.Ghost != "" {
		key := "F|" + typeKey(p.Root) + "|" + p.Ghost
		terms := x.flatten(v)
		for i, l := range leaves(v.T) {
			arr := x.heapArr(st, key+l.Path, l.Sort)
			x.setHeapArr(st, key+l.Path, l.Sort, fmt.Sprintf("(store %s %s %s)", arr, p.Base, terms[i]))
		}
		return
	}
	if p.Abs {
		if p.AbsLoc != nil && v.K == KLeaf {
			// element store into a byte array held in a variable: functional update of its content id
			cur := x.load(st, p.AbsLoc, p.GhostT)
			nid := fmt.Sprintf("(bupd %s %s %s)", cur.Term, p.Idx, v.Term)
			st.assume(fmt.Sprintf("(= (blen %s) (blen %s))", nid, cur.Term))
			st.assume(fmt.Sprintf("(= (bat %s %s) %s)", nid, p.Idx, v.Term))
			x.store(st, p.AbsLoc, leaf(p.GhostT, nid))
			return
		}
		st.notes = append(st.notes, "unsupported: store into abstract byte string")
		x.note("store into an abstract byte string (path abandoned)")
		st.dead = true
		return
	}
	if p.Cell != nil {
		if ref, ok := st.promo[p.Cell]; ok {
			x.store(st, &Pointer{Base: ref, Root: p.Cell.T, Path: p.Path}, v)
			return
		}
		cv := st.cells[p.Cell]
		if cv == nil {
			cv = x.zeroValue(st, p.Cell.T)
		}
		st.cells[p.Cell] = updateAt(cv, p.Path, v)
		st.wcells[p.Cell] = true
		return
	}
	prefix, _ := pathInfo(p.Root, p.Path)
	kind := "F|"
	if p.Idx != "" {
		kind = "E|"
	}
	terms := x.flatten(v)
	ls := leaves(v.T)
	if len(ls) != len(terms) {
		// type mismatch (e.g. untyped nil): fall back to zero-filling
		st.notes = append(st.notes, fmt.Sprintf("store: leaf mismatch for %v", v.T))
		return
	}
	for i, l := range ls {
		key := kind + typeKey(p.Root) + "|" + joinPath(prefix, l.Path)
		arr := x.heapArr(st, key, l.Sort)
		var nt string
		if p.Idx != "" {
			nt = fmt.Sprintf("(store %s %s (store (select %s %s) %s %s))", arr, p.Base, arr, p.Base, p.Idx, terms[i])
		} else {
			nt = fmt.Sprintf("(store %s %s %s)", arr, p.Base, terms[i])
		}
		x.setHeapArr(st, key, l.Sort, nt)
	}
}

// ptrTerm converts a pointer to a first-class Int term.
func (x *Exec) ptrTerm(p *Pointer) string {
	if p.Nil {
		return "0"
	}
	if p.Cell != nil {
		name := fmt.Sprintf("(iaddr (- %d) 0)", p.Cell.ID)
		if len(p.Path) == 0 {
			return name
		}
		return x.interiorTerm(name, p)
	}
	if len(p.Path) == 0 && p.Idx == "" {
		return p.Base
	}
	base := p.Base
	if p.Idx != "" {
		fn := "elemaddr_" + typeKey(p.Root)
		x.globalDecl(fn, fmt.Sprintf("(declare-fun %s (Int Int) Int)", fn))
		base = fmt.Sprintf("(%s %s %s)", fn, p.Base, p.Idx)
		if len(p.Path) == 0 {
			return base
		}
	}
	return x.interiorTerm(base, p)
}

func (x *Exec) interiorTerm(base string, p *Pointer) string {
	prefix, _ := pathInfo(p.Root, p.Path)
	key := typeKey(p.Root) + "|" + prefix
	id, ok := x.eng.fieldIDs[key]
	if !ok {
		id = len(x.eng.fieldIDs) + 1
		x.eng.fieldIDs[key] = id
	}
	// iaddr is injective in both arguments (inverse-function axioms in the preamble)
	return fmt.Sprintf("(iaddr %s %d)", base, id)
}

func (x *Exec) funcTerm(v *Value) string {
	name := "fn_" + smtName(v.Fn.FnName)
	x.globalDecl(name, fmt.Sprintf("(declare-const %s Int)", name))
	return name
}

// zeroValue of a type.
func (x *Exec) zeroValue(st *State, t types.Type) *Value {
	return mkValue(t, func(l Leaf) string {
		if l.Sort == "Bool" {
			return "false"
		}
		if l.T != nil && isByteArray(l.T) {
			return fmt.Sprintf("(bzero %d)", l.T.Underlying().(*types.Array).Len())
		}
		return "0"
	})
}

// allocObj allocates a fresh heap object of type t, zero-initialised.
func (x *Exec) allocObj(st *State, t types.Type, name string) *Pointer {
	ref := x.fresh(st, "new_"+name, "Int")
	st.assume(fmt.Sprintf("(> %s 0)", ref))
	st.assume(fmt.Sprintf("(not (select %s %s))", st.allocT, ref))
	x.nfresh++
	na := fmt.Sprintf("alloc!%d", x.nfresh)
	st.decls = append(st.decls, fmt.Sprintf("(declare-const %s (Array Int Bool))", na))
	st.assume(fmt.Sprintf("(= %s (store %s %s true))", na, st.allocT, ref))
	st.allocT = na
	st.freshRefs = append(st.freshRefs, ref)
	p := &Pointer{Base: ref, Root: t}
	x.store(st, p, x.zeroValue(st, t))
	return p
}

// freshRef returns a fresh non-nil reference distinct from all known-allocated references.
func (x *Exec) freshRef(st *State, name string) string {
	ref := x.fresh(st, name, "Int")
	st.assume(fmt.Sprintf("(> %s 0)", ref))
	st.assume(fmt.Sprintf("(not (select %s %s))", st.allocT, ref))
	x.nfresh++
	na := fmt.Sprintf("alloc!%d", x.nfresh)
	st.decls = append(st.decls, fmt.Sprintf("(declare-const %s (Array Int Bool))", na))
	st.assume(fmt.Sprintf("(= %s (store %s %s true))", na, st.allocT, ref))
	st.allocT = na
	st.freshRefs = append(st.freshRefs, ref)
	return ref
}

// growAlloc: an unknown number of objects may have been allocated (by a callee): the allocated set becomes an
// arbitrary superset.
func (x *Exec) growAlloc(st *State) {
	na := x.fresh(st, "alloc", "(Array Int Bool)")
	st.assume(fmt.Sprintf("(forall ((r Int)) (! (=> (select %s r) (select %s r)) :pattern ((select %s r))))", st.allocT, na, na))
	st.allocT = na
}

// markAllocated records that ref exists (is distinct from anything allocated later).
func (x *Exec) markAllocated(st *State, ref string) {
	if ref == "0" {
		return
	}
	// the reference exists now: it belongs to the (abstract) set of allocated objects of this moment
	st.assume(fmt.Sprintf("(or (= %s 0) (select %s %s))", ref, st.allocT, ref))
}

func (x *Exec) markValueAllocated(st *State, v *Value) {
	switch v.K {
	case KPtr:
		if v.P.Cell == nil && !v.P.Nil && len(v.P.Path) == 0 && v.P.Idx == "" {
			x.markAllocated(st, v.P.Base)
		}
	case KSlice:
		x.markAllocated(st, v.Fs[0].Term)
	case KLeaf:
		if _, ok := v.T.Underlying().(*types.Map); ok {
			x.markAllocated(st, v.Term)
		}
	case KStruct, KTuple, KArr:
		for _, f := range v.Fs {
			x.markValueAllocated(st, f)
		}
	}
}

func sortedKeys(m map[string]bool) []string {
	var ks []string
	for k := range m {
		ks = append(ks, k)
	}
	sort.Strings(ks)
	return ks
}

// refLeaf: the leaf holds a reference (pointer, map, channel, backing array, interface payload).
func refLeaf(l Leaf) bool {
	if l.Role == "arr" || l.Role == "val" {
		return true
	}
	if l.Role != "" || l.T == nil {
		return false
	}
	switch l.T.Underlying().(type) {
	case *types.Pointer, *types.Map, *types.Chan:
		return true
	}
	return false
}

// savePrivate reads the private cells (captured variables whose address provably never leaves the function and
// its own deferred / directly called closures) and returns the action that writes the values back after a havoc:
// no callee can have a pointer to them, so no frame - however wide - covers them.
func (x *Exec) savePrivate(st *State) func() {
	if len(st.private) == 0 && len(st.privMaps) == 0 {
		return func() {}
	}
	vals := make([]*Value, len(st.private))
	for i, p := range st.private {
		vals[i] = x.load(st, p, p.Root)
	}
	// private maps: remember the inner arrays (presence bits and every value leaf) of each map object
	type savedArr struct{ key, sort, ref, inner string }
	var saved []savedArr
	for _, pm := range st.privMaps {
		dk, vk := mapKeys(pm.mt)
		keys := [][2]string{{dk, "Bool"}}
		for _, l := range leaves(pm.mt.Elem()) {
			keys = append(keys, [2]string{vk + "|" + l.Path, l.Sort})
		}
		for _, ks := range keys {
			a := x.heapArr(st, ks[0], ks[1])
			in := x.fresh(st, "privmap", fmt.Sprintf("(Array Int %s)", ks[1]))
			st.assume(fmt.Sprintf("(= %s (select %s %s))", in, a, pm.ref))
			saved = append(saved, savedArr{ks[0], ks[1], pm.ref, in})
		}
	}
	return func() {
		for i, p := range st.private {
			x.store(st, p, vals[i])
		}
		for _, sv := range saved {
			a := x.heapArr(st, sv.key, sv.sort)
			x.setHeapArr(st, sv.key, sv.sort, fmt.Sprintf("(store %s %s %s)", a, sv.ref, sv.inner))
		}
	}
}

type privMap struct {
	ref string
	mt  *types.Map
}

var privateMapMemo = map[*ssa.MakeMap]bool{}

// privateMap: the map made here is only ever stored into non-escaping local variables of the same function, and every
// load of those variables is used as the operand of a map update, lookup, delete, len or range - so no callee (and no
// closure) can hold a reference to it.
func privateMap(mk *ssa.MakeMap) bool {
	if r, ok := privateMapMemo[mk]; ok {
		return r
	}
	ok := mk.Referrers() != nil
	if ok {
		for _, ref := range *mk.Referrers() {
			switch u := ref.(type) {
			case *ssa.DebugRef:
			case *ssa.MapUpdate:
				ok = ok && u.Map == ssa.Value(mk) && u.Key != ssa.Value(mk) && u.Value != ssa.Value(mk)
			case *ssa.Lookup:
				ok = ok && u.X == ssa.Value(mk)
			case *ssa.Store:
				a, isAlloc := u.Addr.(*ssa.Alloc)
				ok = ok && u.Val == ssa.Value(mk) && isAlloc && !a.Heap && mapLocalOnly(a)
			default:
				ok = false
			}
		}
	}
	privateMapMemo[mk] = ok
	return ok
}

func mapLocalOnly(a *ssa.Alloc) bool {
	if a.Referrers() == nil {
		return false
	}
	for _, ref := range *a.Referrers() {
		switch u := ref.(type) {
		case *ssa.DebugRef:
		case *ssa.Store:
			if u.Addr != ssa.Value(a) {
				return false
			}
			if _, isMk := u.Val.(*ssa.MakeMap); !isMk {
				if c, isC := u.Val.(*ssa.Const); !isC || !c.IsNil() {
					return false
				}
			}
		case *ssa.UnOp:
			if u.Op != token.MUL || u.Referrers() == nil {
				return false
			}
			for _, lr := range *u.Referrers() {
				switch w := lr.(type) {
				case *ssa.DebugRef:
				case *ssa.MapUpdate:
					if w.Map != ssa.Value(u) || w.Key == ssa.Value(u) || w.Value == ssa.Value(u) {
						return false
					}
				case *ssa.Lookup:
					if w.X != ssa.Value(u) {
						return false
					}
				case *ssa.Range:
				case *ssa.Call:
					b, isB := w.Call.Value.(*ssa.Builtin)
					if !isB || (b.Name() != "len" && b.Name() != "delete") {
						return false
					}
				default:
					return false
				}
			}
		default:
			return false
		}
	}
	return true
}

var privateMemo = map[*ssa.Alloc]bool{}

// privateAlloc: every use of the heap-allocated variable is a load, a store INTO it, or a capture by a closure that
// is only deferred or called directly in the allocating function and uses the captured variable in the same ways.
func privateAlloc(a *ssa.Alloc) bool {
	if r, ok := privateMemo[a]; ok {
		return r
	}
	r := privateUses(a, 0)
	privateMemo[a] = r
	return r
}

func privateUses(v ssa.Value, depth int) bool {
	if depth > 3 || v.Referrers() == nil {
		return false
	}
	for _, ref := range *v.Referrers() {
		switch u := ref.(type) {
		case *ssa.DebugRef:
		case *ssa.UnOp:
			if u.Op != token.MUL {
				return false
			}
		case *ssa.Store:
			if u.Val == v {
				return false
			}
		case *ssa.MakeClosure:
			if u.Referrers() == nil {
				return false
			}
			for _, cr := range *u.Referrers() {
				switch c := cr.(type) {
				case *ssa.DebugRef:
				case *ssa.Defer:
					if c.Call.Value != ssa.Value(u) {
						return false
					}
				case *ssa.Call:
					if c.Call.Value != ssa.Value(u) {
						return false
					}
				default:
					return false
				}
			}
			fn := u.Fn.(*ssa.Function)
			for i, b := range u.Bindings {
				if b == v {
					if i >= len(fn.FreeVars) || !privateUses(fn.FreeVars[i], depth+1) {
						return false
					}
				}
			}
		default:
			return false
		}
	}
	return true
}
