package main

import (
	"fmt"
	"go/ast"
	"go/constant"
	"go/token"
	"go/types"
	"strconv"
	"strings"

	"golang.org/x/tools/go/ssa"
)

// Env is the evaluation environment of a contract expression.
type Env struct {
	x       *Exec
	st      *State // current state (also receives assumptions / declarations)
	old     *State // view used inside old(...)
	names   map[string]*Value
	pkg     *types.Package
	pkgPath string
	fn      *ssa.Function   // for locals (loop invariants)
	atBlock *ssa.BasicBlock // loop head, for local resolution
	atPos   token.Pos       // source position of the evaluation point (call site): locals resolve by Go's scoping rules there
	inOld   bool
	bound   map[string]bool
	localsAfterNames bool
	dropGuards bool // assumption position: type facts about bound-variable terms are not kept as guards
	proving bool // evaluating a goal (witness hints of exists are used)
	specDef *specDefCtx
}

type specDefCtx struct {
	heapKeys []string
	heapSort map[string]string
}

type evalError struct{ msg string }

func (e *Env) fail(format string, a ...interface{}) {
	panic(evalError{fmt.Sprintf(format, a...)})
}

// view returns the state used for heap/ghost reads.
func (e *Env) view() *State {
	if e.inOld && e.old != nil {
		return e.old
	}
	return e.st
}

// withView runs f reading from the selected view but sending assumptions/decls to e.st.
func (e *Env) withView(f func(v *State) *Value) *Value {
	v := e.view()
	if v == e.st {
		return f(v)
	}
	v.pc, v.decls = e.st.pc, e.st.decls
	savedNotes := v.notes
	r := f(v)
	e.st.pc, e.st.decls = v.pc, v.decls
	v.pc, v.decls = nil, nil
	v.notes = savedNotes
	return r
}

func (x *Exec) evalClause(st *State, c *Clause, env *Env) string {
	env.st = st
	return x.evalBool(env, c)
}

func (x *Exec) evalBool(env *Env, c *Clause) (res string) {
	mark := -1
	if env.st != nil {
		mark = len(env.st.pc)
	}
	defer func() {
		if r := recover(); r != nil {
			if ee, ok := r.(evalError); ok {
				if mark >= 0 && env.st != nil && len(env.st.pc) > mark {
					env.st.pc = env.st.pc[:mark]
				}
				x.bindErrors = append(x.bindErrors, fmt.Sprintf("%s:%d: %s: %s", c.File, c.Line, c.Src, ee.msg))
				res = "false"
				return
			}
			panic(r)
		}
	}()
	v := env.eval(c.Expr)
	if v.K != KLeaf {
		env.fail("clause is not boolean")
	}
	return v.Term
}

// evalBoolAtCall evaluates a callee postcondition at a call site; ok=false when it refers to an identifier that
// only exists inside the callee.
func (x *Exec) evalBoolAtCall(env *Env, c *Clause) (res string, ok bool) {
	mark := len(env.st.pc)
	defer func() {
		if r := recover(); r != nil {
			if ee, isEE := r.(evalError); isEE {
				// side assumptions made before the evaluation failed (possibly under a binder) are discarded
				if len(env.st.pc) > mark {
					env.st.pc = env.st.pc[:mark]
				}
				if strings.HasPrefix(ee.msg, "unknown identifier") {
					res, ok = "true", false
					return
				}
				x.bindErrors = append(x.bindErrors, fmt.Sprintf("%s:%d: %s: %s", c.File, c.Line, c.Src, ee.msg))
				res, ok = "true", false
				return
			}
			panic(r)
		}
	}()
	v := env.eval(c.Expr)
	if v.K != KLeaf {
		env.fail("clause is not boolean")
	}
	return v.Term, true
}

func (x *Exec) invEnv(st *State, head *ssa.BasicBlock) *Env {
	pkg := x.fn.Pkg.Pkg
	return &Env{x: x, st: st, old: x.entry, names: x.params, pkg: pkg, pkgPath: pkg.Path(), fn: x.fn, atBlock: head}
}

var untypedInt = types.Typ[types.UntypedInt]

func (e *Env) eval(ex ast.Expr) *Value {
	x := e.x
	switch n := ex.(type) {
	case *ast.ParenExpr:
		return e.eval(n.X)
	case *ast.BasicLit:
		switch n.Kind {
		case token.INT:
			v := constant.MakeFromLiteral(n.Value, token.INT, 0)
			return leaf(untypedInt, smtBig(v.ExactString()))
		case token.STRING:
			s, _ := strconv.Unquote(n.Value)
			id := x.strConst(s)
			e.st.assume(fmt.Sprintf("(= (blen %s) %d)", id, len(s)))
			return leaf(types.Typ[types.String], id)
		case token.CHAR:
			s, _ := strconv.Unquote(n.Value)
			return leaf(untypedInt, fmt.Sprintf("%d", []rune(s)[0]))
		}
		e.fail("literal %s not supported", n.Value)
	case *ast.Ident:
		return e.ident(n.Name)
	case *ast.SelectorExpr:
		return e.selector(n)
	case *ast.StarExpr:
		p := e.eval(n.X)
		if p.K != KPtr {
			e.fail("* of non-pointer")
		}
		et := p.P.Root
		if pt, ok := p.T.Underlying().(*types.Pointer); ok && p.T != nil {
			et = pt.Elem()
		}
		return e.withView(func(v *State) *Value { return x.load(v, p.P, et) })
	case *ast.UnaryExpr:
		switch n.Op {
		case token.NOT:
			return boolLeaf(smtNot(e.eval(n.X).Term))
		case token.SUB:
			v := e.eval(n.X)
			return leaf(v.T, fmt.Sprintf("(- %s)", v.Term))
		case token.AND:
			return e.lvalue(n.X)
		}
		e.fail("unary %s not supported", n.Op)
	case *ast.BinaryExpr:
		return e.binary(n)
	case *ast.IndexExpr:
		return e.index(n)
	case *ast.SliceExpr:
		b := e.eval(n.X)
		if b.K == KLeaf && isAbstractBytes(b.T) {
			if n.Low == nil && n.High == nil {
				// x[:] of a byte string / byte array is the same content (as a []byte)
				return leaf(types.NewSlice(types.Typ[types.Uint8]), b.Term)
			}
			lo, hi := "0", fmt.Sprintf("(blen %s)", b.Term)
			if n.Low != nil {
				lo = e.eval(n.Low).Term
			}
			if n.High != nil {
				hi = e.eval(n.High).Term
			}
			return leaf(b.T, fmt.Sprintf("(bslice %s %s %s)", b.Term, lo, hi))
		}
		if b.K == KSlice {
			lo, hi := "0", b.Fs[2].Term
			if n.Low != nil {
				lo = e.eval(n.Low).Term
			}
			if n.High != nil {
				hi = e.eval(n.High).Term
			}
			off, ln := b.Fs[1].Term, hi
			if lo != "0" {
				if off == "0" {
					off = lo
				} else {
					off = fmt.Sprintf("(+ %s %s)", off, lo)
				}
				ln = fmt.Sprintf("(- %s %s)", hi, lo)
			}
			return &Value{K: KSlice, T: b.T, Fs: []*Value{b.Fs[0], intLeaf(off), intLeaf(ln)}}
		}
		e.fail("slice expression on unsupported value")
	case *ast.CallExpr:
		return e.call(n)
	}
	e.fail("expression %T not supported", ex)
	return nil
}

func smtBig(s string) string {
	if strings.HasPrefix(s, "-") {
		return "(- " + s[1:] + ")"
	}
	return s
}

func (e *Env) ident(name string) *Value {
	x := e.x
	switch name {
	case "true":
		return boolLeaf("true")
	case "false":
		return boolLeaf("false")
	case "nil":
		return &Value{K: KLeaf, T: types.Typ[types.UntypedNil], Term: "0"}
	}
	if e.bound[name] {
		return leaf(types.Typ[types.Int], "q_"+name)
	}
	// locals first when evaluating loop invariants (parameters may be reassigned)
	if e.fn != nil && e.atBlock != nil && !e.inOld && !e.localsAfterNames {
		if v := e.local(name); v != nil {
			return v
		}
	}
	if v, ok := e.names[name]; ok {
		return v
	}
	if e.fn != nil && e.atBlock != nil && !e.inOld && e.localsAfterNames {
		if v := e.local(name); v != nil {
			return v
		}
	}
	if gv, ok := x.eng.cs.Ghosts[name]; ok && e.view().specHeap != nil {
		// inside a spec function body: ghost variables are formal parameters, like heap arrays
		si := e.view().specHeap
		key := "G|" + name
		pfx := si.prefix
		if pfx == "" {
			pfx = "hp_"
		}
		nm := "|" + pfx + smtName(key) + "|"
		if _, seen := si.heapSort[key]; !seen {
			si.heapKeys = append(si.heapKeys, key)
			si.heapSort[key] = sortOf(x.eng.ghostType(gv))
		}
		return leaf(x.eng.ghostType(gv), nm)
	}
	if g, ok := e.view().ghost[name]; ok {
		return g
	}
	if gv, ok := x.eng.cs.Ghosts[name]; ok {
		// ghost var not yet materialised in this view
		v := x.freshValue(e.st, x.eng.ghostType(gv), "ghost0_"+name)
		e.view().ghost[name] = v
		return v
	}
	if e.pkg != nil {
		if obj := e.pkg.Scope().Lookup(name); obj != nil {
			return e.object(obj)
		}
	}
	if obj := types.Universe.Lookup(name); obj != nil {
		if c, ok := obj.(*types.Const); ok {
			return e.constVal(c)
		}
	}
	e.fail("unknown identifier %s", name)
	return nil
}

func (e *Env) object(obj types.Object) *Value {
	x := e.x
	switch o := obj.(type) {
	case *types.Const:
		return e.constVal(o)
	case *types.Var:
		// package-level variable
		name := "G_" + smtName(o.Pkg().Name()+"_"+o.Name())
		x.globalDecl(name, fmt.Sprintf("(declare-const %s Int)", name))
		p := &Pointer{Base: name, Root: o.Type()}
		lv := e.withView(func(v *State) *Value { return x.load(v, p, o.Type()) })
		if sp := x.eng.prog.Package(o.Pkg()); sp != nil && lv.K == KIface {
			if g, ok := sp.Members[o.Name()].(*ssa.Global); ok && x.eng.initOnlyErrGlobal(g) {
				e.st.assume(fmt.Sprintf("(not (= %s 0))", lv.Fs[0].Term))
			}
		}
		return lv
	}
	e.fail("object %s not usable in a contract", obj.Name())
	return nil
}

func (e *Env) constVal(c *types.Const) *Value {
	v := c.Val()
	switch v.Kind() {
	case constant.Bool:
		if constant.BoolVal(v) {
			return boolLeaf("true")
		}
		return boolLeaf("false")
	case constant.Int:
		return leaf(c.Type(), smtBig(v.ExactString()))
	case constant.String:
		s := constant.StringVal(v)
		id := e.x.strConst(s)
		e.st.assume(fmt.Sprintf("(= (blen %s) %d)", id, len(s)))
		return leaf(c.Type(), id)
	case constant.Float:
		if iv := constant.ToInt(v); iv.Kind() == constant.Int {
			return leaf(c.Type(), smtBig(iv.ExactString()))
		}
	}
	e.fail("constant %s not representable", c.Name())
	return nil
}

// local resolves a local variable (ssa.Alloc by source name) visible at the loop head.
func (e *Env) local(name string) *Value {
	x := e.x
	var best, undefined, executed *ssa.Alloc
	fr := e.st.frames[0]
	if e.atPos.IsValid() && e.fn.Pkg != nil && e.fn.Pkg.Pkg != nil {
		// Go's own scoping at the evaluation point decides between several locals of one name (a shadowing
		// `if err := ...` is out of scope after its statement although its block dominates what follows)
		if sc := e.fn.Pkg.Pkg.Scope().Innermost(e.atPos); sc != nil {
			if _, obj := sc.LookupParent(name, e.atPos); obj != nil {
				if v, ok := obj.(*types.Var); ok {
					for _, b := range e.fn.Blocks {
						for _, ins := range b.Instrs {
							if a, ok := ins.(*ssa.Alloc); ok && a.Comment == name && a.Pos() == v.Pos() {
								if pv, defined := fr.regs[a]; defined && pv != nil && pv.K == KPtr {
									et := a.Type().Underlying().(*types.Pointer).Elem()
									return x.load(e.st, pv.P, et)
								}
							}
						}
					}
				}
			}
		}
	}
	for _, b := range e.fn.Blocks {
		for _, ins := range b.Instrs {
			a, ok := ins.(*ssa.Alloc)
			if !ok || a.Comment != name {
				continue
			}
			undefined = a
			if _, defined := fr.regs[a]; !defined {
				continue
			}
			if b != e.atBlock && !b.Dominates(e.atBlock) {
				// declared in a branch that was taken on this path (the variable is out of scope in Go at this
				// point, but its last value on the path is well defined): used only when nothing in scope matches
				executed = a
				continue
			}
			best = a // later ones win
		}
	}
	if best == nil && executed != nil && e.proving {
		best = executed
	}
	if best == nil {
		if undefined != nil && e.proving {
			// the local is not in scope on this path (e.g. an early return): its value is arbitrary
			et := undefined.Type().Underlying().(*types.Pointer).Elem()
			return x.freshValue(e.st, et, "outofscope_"+name)
		}
		return nil
	}
	pv := fr.regs[best]
	et := best.Type().Underlying().(*types.Pointer).Elem()
	return x.load(e.st, pv.P, et)
}

func (e *Env) importedPkg(alias string) *types.Package {
	if m := e.x.eng.cs.Imports[e.pkgPath]; m != nil {
		if p, ok := m[alias]; ok {
			return e.x.eng.typesPkg(p)
		}
	}
	if e.pkg != nil {
		for _, imp := range e.pkg.Imports() {
			if imp.Name() == alias {
				return imp
			}
		}
	}
	return nil
}

func (e *Env) selector(n *ast.SelectorExpr) *Value {
	x := e.x
	if id, ok := n.X.(*ast.Ident); ok {
		if _, isName := e.names[id.Name]; !isName && !e.bound[id.Name] {
			if e.fn == nil || e.local(id.Name) == nil {
				if _, isGhost := x.eng.cs.Ghosts[id.Name]; !isGhost {
					if e.pkg == nil || e.pkg.Scope().Lookup(id.Name) == nil {
						if p := e.importedPkg(id.Name); p != nil {
							obj := p.Scope().Lookup(n.Sel.Name)
							if obj == nil {
								e.fail("%s.%s not found", id.Name, n.Sel.Name)
							}
							return e.object(obj)
						}
					}
				}
			}
		}
	}
	b := e.eval(n.X)
	return e.fieldOf(b, n.Sel.Name)
}

func (e *Env) fieldOf(b *Value, name string) *Value {
	x := e.x
	t := b.T
	if t == nil {
		e.fail("selector .%s on untyped value", name)
	}
	// special pseudo-fields
	obj, idx, _ := types.LookupFieldOrMethod(t, true, e.pkgOf(t), name)
	fv, ok := obj.(*types.Var)
	if !ok || fv == nil {
		if gv := e.ghostField(b, name); gv != nil {
			return gv
		}
		e.fail("no field %s in %s", name, t)
	}
	cur := b
	ct := t
	for _, fi := range idx {
		// auto-deref
		if pt, isP := ct.Underlying().(*types.Pointer); isP {
			if cur.K != KPtr {
				e.fail("pointer value expected")
			}
			np := *cur.P
			if np.Nil {
				// the contract dereferences a nil pointer: the specified function would panic here
				e.st.dead = true
				return x.freshValue(e.st, fv.Type(), "nilfield")
			}
			np.Path = append(append([]Sel(nil), cur.P.Path...), Sel{Field: fi})
			stt := structOf(pt.Elem())
			ft := stt.Field(fi).Type()
			// keep as pointer to the field, then load
			pp := np
			cur = e.withView(func(v *State) *Value { return x.load(v, &pp, ft) })
			ct = ft
			continue
		}
		stt := structOf(ct)
		if stt == nil {
			e.fail("field selection on non-struct %s", ct)
		}
		if cur.K != KStruct {
			e.fail("struct value expected for %s", ct)
		}
		cur = cur.Fs[fi]
		ct = stt.Field(fi).Type()
	}
	return cur
}

func structOf(t types.Type) *types.Struct {
	s, _ := t.Underlying().(*types.Struct)
	return s
}

func (e *Env) pkgOf(t types.Type) *types.Package {
	if p, ok := t.(*types.Pointer); ok {
		t = p.Elem()
	}
	if n, ok := t.(*types.Named); ok && n.Obj().Pkg() != nil {
		return n.Obj().Pkg()
	}
	return e.pkg
}

// lvalue evaluates an addressable expression to a pointer.
func (e *Env) lvalue(ex ast.Expr) *Value {
	x := e.x
	switch n := ex.(type) {
	case *ast.ParenExpr:
		return e.lvalue(n.X)
	case *ast.StarExpr:
		return e.eval(n.X)
	case *ast.SelectorExpr:
		if id, ok := n.X.(*ast.Ident); ok {
			if _, isName := e.names[id.Name]; !isName && !e.bound[id.Name] && (e.pkg == nil || e.pkg.Scope().Lookup(id.Name) == nil) {
				if p := e.importedPkg(id.Name); p != nil {
					if obj, ok := p.Scope().Lookup(n.Sel.Name).(*types.Var); ok {
						name := "G_" + smtName(obj.Pkg().Name()+"_"+obj.Name())
						x.globalDecl(name, fmt.Sprintf("(declare-const %s Int)", name))
						return &Value{K: KPtr, T: types.NewPointer(obj.Type()), P: &Pointer{Base: name, Root: obj.Type()}}
					}
				}
			}
		}
		b := e.eval(n.X)
		var bp *Pointer
		if b.K == KPtr {
			bp = b.P
		} else {
			lb := e.lvalue(n.X)
			bp = lb.P
		}
		_, bt := pathInfo(bp.Root, bp.Path)
		obj, idx, _ := types.LookupFieldOrMethod(bt, true, e.pkgOf(bt), n.Sel.Name)
		fv, ok := obj.(*types.Var)
		if !ok {
			if root, ft, okg := e.ghostFieldInfo(types.NewPointer(bt), n.Sel.Name); okg && len(bp.Path) == 0 && bp.Cell == nil {
				return &Value{K: KPtr, T: types.NewPointer(ft), P: &Pointer{Base: bp.Base, Root: root, Ghost: "$" + n.Sel.Name, GhostT: ft}}
			}
			e.fail("no field %s", n.Sel.Name)
		}
		np := *bp
		np.Path = append([]Sel(nil), bp.Path...)
		for _, fi := range idx {
			np.Path = append(np.Path, Sel{Field: fi})
		}
		return &Value{K: KPtr, T: types.NewPointer(fv.Type()), P: &np}
	case *ast.IndexExpr:
		b := e.eval(n.X)
		i := e.eval(n.Index)
		if b.K == KSlice {
			et := b.T.Underlying().(*types.Slice).Elem()
			idx := i.Term
			if b.Fs[1].Term != "0" {
				idx = fmt.Sprintf("(sidx %s %s)", b.Fs[1].Term, i.Term)
			}
			return &Value{K: KPtr, T: types.NewPointer(et), P: &Pointer{Base: b.Fs[0].Term, Idx: idx, Root: et}}
		}
		e.fail("index lvalue on unsupported value")
	case *ast.Ident:
		if e.pkg != nil {
			if _, isName := e.names[n.Name]; !isName {
				if obj, ok := e.pkg.Scope().Lookup(n.Name).(*types.Var); ok && (e.fn == nil || e.local(n.Name) == nil || e.atBlock == nil) {
					name := "G_" + smtName(obj.Pkg().Name()+"_"+obj.Name())
					x.globalDecl(name, fmt.Sprintf("(declare-const %s Int)", name))
					return &Value{K: KPtr, T: types.NewPointer(obj.Type()), P: &Pointer{Base: name, Root: obj.Type()}}
				}
			}
		}
		if e.fn != nil {
			fr := e.st.frames[0]
			for _, b := range e.fn.Blocks {
				for _, ins := range b.Instrs {
					if a, ok := ins.(*ssa.Alloc); ok && a.Comment == n.Name {
						if pv, ok := fr.regs[a]; ok {
							return pv
						}
					}
				}
			}
		}
	}
	_ = x
	e.fail("not an lvalue")
	return nil
}

func (e *Env) index(n *ast.IndexExpr) *Value {
	x := e.x
	b := e.eval(n.X)
	i := e.eval(n.Index)
	switch b.K {
	case KSlice:
		et := b.T.Underlying().(*types.Slice).Elem()
		idx := i.Term
		if b.Fs[1].Term != "0" {
			idx = fmt.Sprintf("(sidx %s %s)", b.Fs[1].Term, i.Term)
		}
		p := &Pointer{Base: b.Fs[0].Term, Idx: idx, Root: et}
		return e.withView(func(v *State) *Value { return x.load(v, p, et) })
	case KLeaf:
		if b.T != nil {
			if isAbstractBytes(b.T) {
				return leaf(types.Typ[types.Uint8], fmt.Sprintf("(bat %s %s)", b.Term, i.Term))
			}
			if mt, ok := b.T.Underlying().(*types.Map); ok {
				kt, _ := x.mapKeyTerm(e.st, i)
				dk, vk := mapKeys(mt)
				return e.withView(func(v *State) *Value {
					// Go semantics: the zero value for an absent key
					d := x.heapArr(v, dk, "Bool")
					present := fmt.Sprintf("(select (select %s %s) %s)", d, b.Term, kt)
					return mkValue(mt.Elem(), func(l Leaf) string {
						a := x.heapArr(v, vk+"|"+l.Path, l.Sort)
						z := "0"
						if l.Sort == "Bool" {
							z = "false"
						}
						return fmt.Sprintf("(ite %s (select (select %s %s) %s) %s)", present, a, b.Term, kt, z)
					})
				})
			}
		}
	case KArr:
		if k, ok := constInt(i.Term); ok && k >= 0 && k < len(b.Fs) {
			return b.Fs[k]
		}
	}
	e.fail("index on unsupported value")
	return nil
}

func (e *Env) binary(n *ast.BinaryExpr) *Value {
	x := e.x
	switch n.Op {
	case token.LAND:
		a := e.eval(n.X)
		// right side evaluated under the left's truth (for guards like p != nil && p.f == ...)
		b := e.eval(n.Y)
		return boolLeaf(smtAnd([]string{a.Term, b.Term}))
	case token.LOR:
		a := e.eval(n.X)
		b := e.eval(n.Y)
		return boolLeaf(smtOr([]string{a.Term, b.Term}))
	}
	a := e.eval(n.X)
	b := e.eval(n.Y)
	switch n.Op {
	case token.EQL, token.NEQ:
		var t string
		if a.T == types.Typ[types.UntypedNil] || b.T == types.Typ[types.UntypedNil] {
			o := b
			if a.T != types.Typ[types.UntypedNil] {
				o = a
			}
			t = e.isNil(o)
		} else {
			t = x.valuesEqual(e.st, a, b)
		}
		if n.Op == token.NEQ {
			t = smtNot(t)
		}
		return boolLeaf(t)
	}
	if a.K != KLeaf || b.K != KLeaf {
		e.fail("operator %s on composite values", n.Op)
	}
	rt := a.T
	if rt == nil || rt == untypedInt {
		rt = b.T
	}
	isStr := rt != nil && rt != untypedInt && isAbstractBytes(rt)
	A, B := a.Term, b.Term
	switch n.Op {
	case token.ADD:
		if isStr {
			return leaf(rt, fmt.Sprintf("(bconcat %s %s)", A, B))
		}
		return leaf(rt, fmt.Sprintf("(+ %s %s)", A, B))
	case token.SUB:
		return leaf(rt, fmt.Sprintf("(- %s %s)", A, B))
	case token.MUL:
		return leaf(rt, fmt.Sprintf("(* %s %s)", A, B))
	case token.QUO:
		return leaf(rt, fmt.Sprintf("(tdiv %s %s)", A, B))
	case token.REM:
		return leaf(rt, fmt.Sprintf("(tmod %s %s)", A, B))
	case token.LSS, token.LEQ, token.GTR, token.GEQ:
		o := map[token.Token]string{token.LSS: "<", token.LEQ: "<=", token.GTR: ">", token.GEQ: ">="}[n.Op]
		if isStr {
			return boolLeaf(fmt.Sprintf("(%s (bcmp %s %s) 0)", o, A, B))
		}
		return boolLeaf(fmt.Sprintf("(%s %s %s)", o, A, B))
	case token.SHL:
		if k, ok := constInt(B); ok {
			return leaf(rt, fmt.Sprintf("(* %s %s)", A, pow2(k)))
		}
	case token.SHR:
		if k, ok := constInt(B); ok {
			return leaf(rt, fmt.Sprintf("(div %s %s)", A, pow2(k)))
		}
	}
	e.fail("operator %s not supported", n.Op)
	return nil
}

func (e *Env) isNil(v *Value) string {
	switch v.K {
	case KPtr:
		return fmt.Sprintf("(= %s 0)", e.x.ptrTerm(v.P))
	case KIface:
		return fmt.Sprintf("(= %s 0)", v.Fs[0].Term)
	case KSlice:
		return fmt.Sprintf("(= %s 0)", v.Fs[0].Term)
	case KLeaf:
		if v.T != nil && isAbstractBytes(v.T) {
			return fmt.Sprintf("(= %s 0)", v.Term)
		}
		return fmt.Sprintf("(= %s 0)", v.Term)
	}
	e.fail("nil comparison on unsupported value")
	return ""
}

func identName(ex ast.Expr) string {
	if id, ok := ex.(*ast.Ident); ok {
		return id.Name
	}
	return ""
}

func (e *Env) quant(kind string, args []ast.Expr) *Value {
	if kind == "exists" && len(args) == 5 {
		// exists(k, lo, hi, body, witness): when proving, the witness is used; when assumed, it is a plain exists
		if !e.proving {
			return e.quant(kind, args[:4])
		}
		name := identName(args[0])
		w := e.tryEval(args[4])
		if w == nil {
			return e.quant(kind, args[:4]) // witness not available on this path
		}
		lo := e.eval(args[1])
		hi := e.eval(args[2])
		saved, had := e.names[name]
		nn := cloneNames(e.names)
		nn[name] = leaf(types.Typ[types.Int], w.Term)
		old := e.names
		e.names = nn
		wasB := e.bound[name]
		if e.bound != nil {
			e.bound[name] = false
		}
		bv := e.eval(args[3])
		e.names = old
		if e.bound != nil {
			e.bound[name] = wasB
		}
		_, _ = saved, had
		return boolLeaf(smtAnd([]string{fmt.Sprintf("(<= %s %s)", lo.Term, w.Term), fmt.Sprintf("(< %s %s)", w.Term, hi.Term), bv.Term}))
	}
	if len(args) != 2 && len(args) != 4 {
		e.fail("%s(i, lo, hi, body) or %s(i, body)", kind, kind)
	}
	name := identName(args[0])
	if name == "" {
		e.fail("bound variable expected")
	}
	if e.bound == nil {
		e.bound = map[string]bool{}
	}
	was := e.bound[name]
	e.bound[name] = true
	mark := len(e.st.pc)
	var guard []string
	qv := "q_" + name
	body := args[len(args)-1]
	if len(args) == 4 {
		lo := e.eval(args[1])
		hi := e.eval(args[2])
		guard = append(guard, fmt.Sprintf("(<= %s %s)", lo.Term, qv), fmt.Sprintf("(< %s %s)", qv, hi.Term))
	}
	bv := e.eval(body)
	// assumptions generated while evaluating under the binder must stay under it
	captured := append([]string(nil), e.st.pc[mark:]...)
	e.st.pc = e.st.pc[:mark]
	var kept []string
	for _, c := range captured {
		if strings.Contains(c, qv) {
			// type facts about terms under the binder are dropped in both polarities: quantified specifications
			// range over all integers (a goal becomes stronger, and every assumed instance was proved in that form)
			_ = e.dropGuards
		} else {
			kept = append(kept, c)
		}
	}
	e.st.pc = append(e.st.pc, kept...)
	e.bound[name] = was
	if kind == "forall" {
		if len(guard) == 0 {
			return boolLeaf(fmt.Sprintf("(forall ((%s Int)) %s)", qv, bv.Term))
		}
		return boolLeaf(fmt.Sprintf("(forall ((%s Int)) (=> %s %s))", qv, smtAnd(guard), bv.Term))
	}
	return boolLeaf(fmt.Sprintf("(exists ((%s Int)) %s)", qv, smtAnd(append(guard, bv.Term))))
}

func (e *Env) call(n *ast.CallExpr) *Value {
	x := e.x
	fname := identName(n.Fun)
	switch fname {
	case "old":
		was := e.inOld
		e.inOld = true
		v := e.eval(n.Args[0])
		e.inOld = was
		return v
	case "implies":
		a := e.eval(n.Args[0])
		b := e.eval(n.Args[1])
		return boolLeaf(fmt.Sprintf("(=> %s %s)", a.Term, b.Term))
	case "iff":
		a := e.eval(n.Args[0])
		b := e.eval(n.Args[1])
		return boolLeaf(fmt.Sprintf("(= %s %s)", a.Term, b.Term))
	case "ite":
		c := e.eval(n.Args[0])
		a := e.eval(n.Args[1])
		b := e.eval(n.Args[2])
		t := a.T
		if t == nil || t == untypedInt {
			t = b.T
		}
		return leaf(t, fmt.Sprintf("(ite %s %s %s)", c.Term, a.Term, b.Term))
	case "forall", "exists":
		return e.quant(fname, n.Args)
	case "len":
		a := e.eval(n.Args[0])
		switch a.K {
		case KSlice:
			return intLeaf(a.Fs[2].Term)
		case KLeaf:
			if a.T != nil && isAbstractBytes(a.T) {
				return intLeaf(fmt.Sprintf("(blen %s)", a.Term))
			}
			if a.T != nil {
				if _, ok := a.T.Underlying().(*types.Map); ok {
					return e.withView(func(v *State) *Value { return intLeaf(fmt.Sprintf("(maplen %s %s)", x.mapDomTerm(v, a), a.Term)) })
				}
			}
		case KArr:
			return intLeaf(fmt.Sprintf("%d", len(a.Fs)))
		}
		e.fail("len of unsupported value")
	case "has":
		// has(m, k): key k present in map m
		m := e.eval(n.Args[0])
		k := e.eval(n.Args[1])
		mt, ok := m.T.Underlying().(*types.Map)
		if !ok {
			e.fail("has: not a map")
		}
		kt, _ := x.mapKeyTerm(e.st, k)
		dk, _ := mapKeys(mt)
		return e.withView(func(v *State) *Value {
			return boolLeaf(fmt.Sprintf("(select (select %s %s) %s)", x.heapArr(v, dk, "Bool"), m.Term, kt))
		})
	case "visited", "visitedn":
		// visited(k) / visitedn(n, k): key k already visited by the (n-th) map range loop of the function
		n1 := "1"
		karg := n.Args[0]
		if fname == "visitedn" {
			n1 = e.eval(n.Args[0]).Term
			karg = n.Args[1]
		}
		k := e.eval(karg)
		kt, _ := x.mapKeyTerm(e.st, k)
		g := e.view().ghost["$visited"+n1]
		if g == nil {
			e.fail("visited: no map iteration %s in progress", n1)
		}
		return boolLeaf(fmt.Sprintf("(select %s %s)", g.Term, kt))
	case "holds", "rholds", "unlocked":
		m := e.eval(n.Args[0])
		var key string
		mp := m.P
		if m.K != KPtr {
			mp = e.lvalue(n.Args[0]).P
		}
		// wrappers such as libs/sync.RWMutex{sync.RWMutex}: the lock is the embedded standard mutex
		for mp != nil && !mp.Nil {
			_, t := pathInfo(mp.Root, mp.Path)
			stt, ok := t.Underlying().(*types.Struct)
			if !ok || stt.NumFields() != 1 || !stt.Field(0).Embedded() {
				break
			}
			np := *mp
			np.Path = append(append([]Sel(nil), mp.Path...), Sel{Field: 0})
			mp = &np
		}
		key = x.ptrTerm(mp)
		locks := e.view().locks
		switch fname {
		case "holds":
			return boolLeaf(fmt.Sprintf("(= (select %s %s) 2)", locks, key))
		case "rholds":
			return boolLeaf(fmt.Sprintf("(>= (select %s %s) 1)", locks, key))
		default:
			return boolLeaf(fmt.Sprintf("(= (select %s %s) 0)", locks, key))
		}
	case "typeis":
		// typeis(x, T): dynamic type of interface value x is T
		v := e.eval(n.Args[0])
		if v.K != KIface {
			e.fail("typeis: not an interface value")
		}
		t := e.typeExpr(n.Args[1])
		return boolLeaf(fmt.Sprintf("(= %s %s)", v.Fs[0].Term, x.tagOf(t)))
	case "fresh":
		// fresh(x): the object x refers to (a pointer, or the backing array of a slice) did not exist in the pre-state
		v := e.eval(n.Args[0])
		ts := x.flatten(v)
		if len(ts) == 0 || e.old == nil {
			e.fail("fresh: unsupported argument")
		}
		at := e.old.allocT
		if at == "" {
			at = "alloc0"
		}
		return boolLeaf(fmt.Sprintf("(or (= %s 0) (not (select %s %s)))", ts[0], at, ts[0]))
	case "exists_now":
		// exists_now(x): the object x refers to (a pointer, or the backing array of a slice) is nil or exists in the
		// state in which the clause is evaluated - so it differs from anything allocated afterwards
		v := e.eval(n.Args[0])
		ts := x.flatten(v)
		if len(ts) == 0 {
			e.fail("exists_now: unsupported argument")
		}
		at := e.view().allocT
		if at == "" {
			at = "alloc0"
		}
		return boolLeaf(fmt.Sprintf("(or (= %s 0) (select %s %s))", ts[0], at, ts[0]))
	case "sends":
		// sends(ch): number of sends on channel ch performed so far by the function
		ch := e.eval(n.Args[0])
		g := e.view().ghost["$sends"]
		if g == nil {
			e.fail("sends: ghost not initialised")
		}
		return intLeaf(fmt.Sprintf("(select %s %s)", g.Term, ch.Term))
	case "recvdnil":
		// recvdnil(ch): some value received from ch so far by the function was the nil interface
		ch := e.eval(n.Args[0])
		g := e.view().ghost["$recvnil"]
		if g == nil {
			e.fail("recvdnil: ghost not initialised")
		}
		return boolLeaf(fmt.Sprintf("(select %s %s)", g.Term, ch.Term))
	case "lastsent":
		ch := e.eval(n.Args[0])
		g := e.view().ghost["$lastsent"]
		return intLeaf(fmt.Sprintf("(select %s %s)", g.Term, ch.Term))
	case "tagof":
		v := e.eval(n.Args[0])
		if v.K != KIface {
			e.fail("tagof: not an interface value")
		}
		return intLeaf(v.Fs[0].Term)
	case "payload":
		v := e.eval(n.Args[0])
		if v.K != KIface {
			e.fail("payload: not an interface value")
		}
		return intLeaf(v.Fs[1].Term)
	case "cast":
		// cast(T, x): view the integer/reference x as a value of pointer type T
		t := e.typeExpr(n.Args[0])
		v := e.eval(n.Args[1])
		ts := x.flatten(v)
		if _, ok := t.Underlying().(*types.Pointer); ok {
			return ptrFromTerm(t, ts[0])
		}
		return leaf(t, ts[0])
	case "shas", "sget":
		// sync.Map model: shas(m, k) key present; sget(m, k) stored value (payload reference)
		mv := e.lvalue(n.Args[0])
		k := e.eval(n.Args[1])
		kt, _ := x.mapKeyTerm(e.st, k)
		mref := x.ptrTerm(mv.P)
		return e.withView(func(v *State) *Value {
			if fname == "shas" {
				return boolLeaf(fmt.Sprintf("(select (select %s %s) %s)", x.heapArr(v, "MD|sync.Map", "Bool"), mref, kt))
			}
			return intLeaf(fmt.Sprintf("(select (select %s %s) %s)", x.heapArr(v, "MV|sync.Map|$val", "Int"), mref, kt))
		})
	case "dbbatchop":
		// dbbatchop(batch, key): 0 untouched, 1 set, 2 delete — the pending operation of a batch on key
		bv := e.eval(n.Args[0])
		kt := e.eval(n.Args[1]).Term
		b := x.dbRef(bv)
		return e.withView(func(v *State) *Value {
			return intLeaf(fmt.Sprintf("(select (select %s %s) %s)", x.heapArr(v, "MV|dbmbatch|op", "Int"), b, kt))
		})
	case "dbhas", "dbget", "dbcount", "dbwrites":
		// key-value store model: dbhas(db,key), dbget(db,key), dbcount(db, firstByte), dbwrites(db)
		dbv := e.eval(n.Args[0])
		db := x.dbRef(dbv)
		var kt string
		if len(n.Args) > 1 {
			kt = e.eval(n.Args[1]).Term
		}
		return e.withView(func(v *State) *Value {
			switch fname {
			case "dbhas":
				return boolLeaf(fmt.Sprintf("(select (select %s %s) %s)", x.heapArr(v, "MD|dbm", "Bool"), db, kt))
			case "dbget":
				return leaf(types.NewSlice(types.Typ[types.Uint8]), fmt.Sprintf("(select (select %s %s) %s)", x.heapArr(v, "MV|dbm|val", "Int"), db, kt))
			case "dbcount":
				return intLeaf(fmt.Sprintf("(select (select %s %s) %s)", x.heapArr(v, "MV|dbm|cnt", "Int"), db, kt))
			}
			return intLeaf(fmt.Sprintf("(select %s %s)", x.heapArr(v, "F|dbm|$writes", "Int"), db))
		})
	case "imethod":
		// imethod(x, Name, args...): result of the pure interface method Name on x (deterministic in receiver and arguments)
		recv := e.eval(n.Args[0])
		mname := identName(n.Args[1])
		if recv.K != KIface || recv.T == nil {
			e.fail("imethod: not an interface value")
		}
		obj, _, _ := types.LookupFieldOrMethod(recv.T, true, e.pkgOf(recv.T), mname)
		mf, ok := obj.(*types.Func)
		if !ok {
			e.fail("imethod: no method %s", mname)
		}
		sig := mf.Type().(*types.Signature)
		terms := x.flatten(recv)
		all := []*Value{recv}
		for _, a := range n.Args[2:] {
			v := e.eval(a)
			all = append(all, v)
			terms = append(terms, x.flatten(v)...)
		}
		rt := sig.Results().At(0).Type()
		if fc := x.eng.contractOfMethod(mf, recv.T); fc != nil && fc.Pure {
			return mkValue(rt, func(l Leaf) string {
				idx := 0
				for i, ll := range leaves(rt) {
					if ll.Path == l.Path {
						idx = i
					}
				}
				fn := fmt.Sprintf("pure_%s_%d_%d", smtName(fc.PkgPath+"."+fc.Key), 0, idx)
				x.globalDecl(fn, fmt.Sprintf("(declare-fun %s (%s) %s)", fn, strings.TrimSpace(strings.Repeat("Int ", len(terms))), l.Sort))
				return fmt.Sprintf("(%s %s)", fn, strings.Join(x.intTerms(terms, all), " "))
			})
		}
		full := mf.FullName()
		return mkValue(rt, func(l Leaf) string {
			fn := fmt.Sprintf("im_%s_%d_%s", smtName(full), 0, smtName(l.Path))
			x.globalDecl(fn, fmt.Sprintf("(declare-fun %s (%s) %s)", fn, strings.TrimSpace(strings.Repeat("Int ", len(terms))), l.Sort))
			return fmt.Sprintf("(%s %s)", fn, strings.Join(x.intTerms(terms, all), " "))
		})
	case "sha256sum":
		a := e.eval(n.Args[0])
		return leaf(types.NewSlice(types.Typ[types.Uint8]), fmt.Sprintf("(hash_sha256 %s)", a.Term))
	case "tmhashSum":
		a := e.eval(n.Args[0])
		t := fmt.Sprintf("(hash_Sum %s)", a.Term)
		return leaf(types.NewSlice(types.Typ[types.Uint8]), t)
	case "concat":
		a := e.eval(n.Args[0])
		b := e.eval(n.Args[1])
		return leaf(types.NewSlice(types.Typ[types.Uint8]), fmt.Sprintf("(bconcat %s %s)", a.Term, b.Term))
	case "pow2":
		a := e.eval(n.Args[0])
		return intLeaf(fmt.Sprintf("(pow2i %s)", a.Term))
	case "ref":
		// ref(p): the reference of a pointer as an integer
		v := e.eval(n.Args[0])
		ts := x.flatten(v)
		return intLeaf(ts[0])
	}
	// res1(f(args)): the second result of a pure Go function
	if fname == "res1" && len(n.Args) == 1 {
		if ce, ok := n.Args[0].(*ast.CallExpr); ok {
			if v := e.pureCall(ce, 1); v != nil {
				return v
			}
		}
		e.fail("res1() needs a call of a pure function")
	}
	if v := e.pureCall(n, 0); v != nil {
		return v
	}
	// spec function?
	if sf, ok := x.eng.cs.Specs[fname]; ok {
		return e.applySpec(sf, n.Args)
	}
	// conversion T(x)?
	if t := e.tryTypeExpr(n.Fun); t != nil && len(n.Args) == 1 {
		v := e.eval(n.Args[0])
		if v.K == KLeaf {
			// integer conversions have Go's semantics (two's complement truncation), as in the executed code
			if v.T != nil {
				fb, fok := v.T.Underlying().(*types.Basic)
				tb, tok := t.Underlying().(*types.Basic)
				if fok && tok && fb.Info()&types.IsInteger != 0 && tb.Info()&types.IsInteger != 0 && fb.Info()&types.IsUntyped == 0 && !isAbstractBytes(v.T) {
					return leaf(t, wrapConv(v.Term, fb, tb))
				}
			}
			return leaf(t, v.Term)
		}
		return retag(v, t)
	}
	e.fail("call to %s not supported in contracts", exprString(n.Fun))
	return nil
}

// pureCall: Go function with a `pure`/`purefn` contract: its ri-th result is a function of the arguments.
// Forms: f(args), T.M(recv, args), alias.f(args), alias.T.M(recv, args). nil when n.Fun is not such a function.
func (e *Env) pureCall(n *ast.CallExpr, ri int) *Value {
	x := e.x
	fc := e.pureContract(n.Fun)
	if fc == nil {
		return nil
	}
	fname := fc.Key
	var terms []string
	var all []*Value
	for _, a := range n.Args {
		v := e.eval(a)
		all = append(all, v)
		terms = append(terms, x.flatten(v)...)
	}
	fn := x.eng.funcOfContract(fc)
	if fn == nil || fn.Signature.Results().Len() <= ri {
		e.fail("pure function %s cannot be bound", fname)
	}
	rt := fn.Signature.Results().At(ri).Type()
	if len(terms) == 0 {
		e.fail("pure function %s without arguments in a contract", fname)
	}
	return mkValue(rt, func(l Leaf) string {
		idx := 0
		for i, ll := range leaves(rt) {
			if ll.Path == l.Path {
				idx = i
			}
		}
		name := fmt.Sprintf("pure_%s_%d_%d", smtName(fc.PkgPath+"."+fc.Key), ri, idx)
		x.globalDecl(name, fmt.Sprintf("(declare-fun %s (%s) %s)", name, strings.TrimSpace(strings.Repeat("Int ", len(terms))), l.Sort))
		return fmt.Sprintf("(%s %s)", name, strings.Join(x.intTerms(terms, all), " "))
	})
}

func exprString(ex ast.Expr) string {
	switch n := ex.(type) {
	case *ast.Ident:
		return n.Name
	case *ast.SelectorExpr:
		return exprString(n.X) + "." + n.Sel.Name
	}
	return fmt.Sprintf("%T", ex)
}

func (e *Env) tryTypeExpr(ex ast.Expr) (t types.Type) {
	defer func() {
		if r := recover(); r != nil {
			if _, ok := r.(evalError); ok {
				t = nil
				return
			}
			panic(r)
		}
	}()
	return e.typeExpr(ex)
}

func (e *Env) typeExpr(ex ast.Expr) types.Type {
	switch n := ex.(type) {
	case *ast.Ident:
		if obj := types.Universe.Lookup(n.Name); obj != nil {
			if tn, ok := obj.(*types.TypeName); ok {
				return tn.Type()
			}
		}
		if e.pkg != nil {
			if obj := e.pkg.Scope().Lookup(n.Name); obj != nil {
				if tn, ok := obj.(*types.TypeName); ok {
					return tn.Type()
				}
			}
		}
	case *ast.SelectorExpr:
		if id, ok := n.X.(*ast.Ident); ok {
			if p := e.importedPkg(id.Name); p != nil {
				if obj := p.Scope().Lookup(n.Sel.Name); obj != nil {
					if tn, ok := obj.(*types.TypeName); ok {
						return tn.Type()
					}
				}
			}
		}
	case *ast.StarExpr:
		return types.NewPointer(e.typeExpr(n.X))
	case *ast.ArrayType:
		if n.Len == nil {
			return types.NewSlice(e.typeExpr(n.Elt))
		}
	case *ast.MapType:
		return types.NewMap(e.typeExpr(n.Key), e.typeExpr(n.Value))
	case *ast.ParenExpr:
		return e.typeExpr(n.X)
	}
	e.fail("not a type: %s", exprString(ex))
	return nil
}

// ---------- spec functions ----------

type specInst struct {
	prefix   string
	name     string
	heapKeys []string
	heapSort map[string]string
	decl     string
}

func (x *Exec) specParamType(sf *SpecFunc, src string) types.Type {
	ex, err := parseTypeExpr(src)
	if err != nil {
		panic(evalError{fmt.Sprintf("spec func %s: bad type %q", sf.Name, src)})
	}
	env := &Env{x: x, pkg: x.eng.typesPkg(sf.PkgPath), pkgPath: sf.PkgPath}
	return env.typeExpr(ex)
}

func (x *Exec) specInstance(sf *SpecFunc) *specInst {
	if si, ok := x.specs[sf.Name]; ok {
		return si
	}
	si := &specInst{name: "sf_" + sf.Name, heapSort: map[string]string{}}
	x.specs[sf.Name] = si // registered first so recursion finds it
	var psorts []string
	var pnames []string
	names := map[string]*Value{}
	for _, p := range sf.Params {
		pt := x.specParamType(sf, p.Type)
		k := 0
		v := mkValue(pt, func(l Leaf) string {
			nm := fmt.Sprintf("p_%s_%d", p.Name, k)
			k++
			psorts = append(psorts, l.Sort)
			pnames = append(pnames, nm)
			return nm
		})
		names[p.Name] = v
	}
	rt := x.specParamType(sf, sf.Result)
	rsort := sortOf(rt)
	if sf.Body == nil {
		if len(psorts) == 0 {
			si.decl = fmt.Sprintf("(declare-const %s %s)", si.name, rsort)
		} else {
			si.decl = fmt.Sprintf("(declare-fun %s (%s) %s)", si.name, strings.Join(psorts, " "), rsort)
		}
		x.specDecls = append(x.specDecls, si.decl)
		return si
	}
	// evaluate the body in a symbolic state whose heap arrays are formal parameters
	bs := &State{heap: map[string]string{}, ghost: map[string]*Value{}, cells: map[*Cell]*Value{}, promo: map[*Cell]string{}, written: map[string]bool{},
		wcells: map[*Cell]bool{}, boxes: map[string]*Value{}, iters: map[string]*mapIter{}, cut: map[*ssa.BasicBlock]bool{}, allocT: "alloc0", locks: "locks0", specHeap: si}
	env := &Env{x: x, st: bs, old: bs, names: names, pkg: x.eng.typesPkg(sf.PkgPath), pkgPath: sf.PkgPath}
	x.specDepth++
	body := env.eval(sf.Body.Expr)
	x.specDepth--
	var hp []string
	var hargs []string
	for _, k := range si.heapKeys {
		nm := "|hp_" + smtName(k) + "|"
		srt := si.heapSort[k]
		elem := strings.HasPrefix(k, "E|") || strings.HasPrefix(k, "MD|") || strings.HasPrefix(k, "MV|")
		if strings.HasPrefix(k, "G|") {
			hp = append(hp, fmt.Sprintf("(%s %s)", nm, srt))
		} else if elem {
			hp = append(hp, fmt.Sprintf("(%s (Array Int (Array Int %s)))", nm, srt))
		} else {
			hp = append(hp, fmt.Sprintf("(%s (Array Int %s))", nm, srt))
		}
		hargs = append(hargs, nm)
	}
	var ps []string
	for i := range pnames {
		ps = append(ps, fmt.Sprintf("(%s %s)", pnames[i], psorts[i]))
	}
	ps = append(ps, hp...)
	bodyT := strings.ReplaceAll(body.Term, "<HEAPARGS:"+sf.Name+">", strings.Join(hargs, " "))
	if strings.Contains(bodyT, "("+si.name+" ") {
		// recursive: Dafny-style fuel encoding (bounded unfolding driven by triggers)
		var sorts, args []string
		for i := range pnames {
			sorts = append(sorts, psorts[i])
			args = append(args, pnames[i])
		}
		for _, k := range si.heapKeys {
			srt := si.heapSort[k]
			if strings.HasPrefix(k, "G|") {
				sorts = append(sorts, srt)
			} else if strings.HasPrefix(k, "E|") || strings.HasPrefix(k, "MD|") || strings.HasPrefix(k, "MV|") {
				sorts = append(sorts, fmt.Sprintf("(Array Int (Array Int %s))", srt))
			} else {
				sorts = append(sorts, fmt.Sprintf("(Array Int %s)", srt))
			}
			args = append(args, "|hp_"+smtName(k)+"|")
		}
		x.recSpecs[si.name] = true
		fname := si.name + "_f"
		// body with recursive calls at fuel k
		bodyK := strings.ReplaceAll(bodyT, "("+si.name+" ", "("+fname+" fk ")
		lhs := fmt.Sprintf("(%s (FS fk) %s)", fname, strings.Join(args, " "))
		si.decl = fmt.Sprintf("(declare-fun %s (Fuel %s) %s)\n", fname, strings.Join(sorts, " "), rsort) +
			fmt.Sprintf("(assert (forall ((fk Fuel) %s) (! (= %s (%s fk %s)) :pattern (%s))))\n", strings.Join(ps, " "), lhs, fname, strings.Join(args, " "), lhs) +
			fmt.Sprintf("(assert (forall ((fk Fuel) %s) (! (= %s %s) :pattern (%s))))\n", strings.Join(ps, " "), lhs, bodyK, lhs) +
			fmt.Sprintf("(define-fun %s (%s) %s (%s (FS (FS FZ)) %s))", si.name, strings.Join(ps, " "), rsort, fname, strings.Join(args, " "))
	} else if len(ps) > 0 && !x.eng.macroSpecs {
		// non-recursive: uninterpreted symbol + definitional axiom triggered on its applications
		var sorts, args []string
		for i := range pnames {
			sorts = append(sorts, psorts[i])
			args = append(args, pnames[i])
		}
		for _, k := range si.heapKeys {
			srt := si.heapSort[k]
			if strings.HasPrefix(k, "G|") {
				sorts = append(sorts, srt)
			} else if strings.HasPrefix(k, "E|") || strings.HasPrefix(k, "MD|") || strings.HasPrefix(k, "MV|") {
				sorts = append(sorts, fmt.Sprintf("(Array Int (Array Int %s))", srt))
			} else {
				sorts = append(sorts, fmt.Sprintf("(Array Int %s)", srt))
			}
			args = append(args, "|hp_"+smtName(k)+"|")
		}
		app := fmt.Sprintf("(%s %s)", si.name, strings.Join(args, " "))
		si.decl = fmt.Sprintf("(declare-fun %s (%s) %s)\n", si.name, strings.Join(sorts, " "), rsort) +
			fmt.Sprintf("(assert (forall (%s) (! (= %s %s) :pattern (%s))))", strings.Join(ps, " "), app, bodyT, app)
	} else {
		si.decl = fmt.Sprintf("(define-fun %s (%s) %s %s)", si.name, strings.Join(ps, " "), rsort, bodyT)
	}
	x.specDecls = append(x.specDecls, si.decl)
	return si
}

func (e *Env) applySpec(sf *SpecFunc, args []ast.Expr) *Value {
	x := e.x
	if len(args) != len(sf.Params) {
		e.fail("spec func %s: %d arguments expected", sf.Name, len(sf.Params))
	}
	var terms []string
	for i, a := range args {
		v := e.eval(a)
		pt := x.specParamType(sf, sf.Params[i].Type)
		ts := x.flatten(v)
		if v.T == types.Typ[types.UntypedNil] {
			ts = make([]string, len(leaves(pt)))
			for j := range ts {
				ts[j] = "0"
			}
		}
		if len(ts) != len(leaves(pt)) {
			e.fail("spec func %s: argument %d has wrong shape", sf.Name, i)
		}
		terms = append(terms, ts...)
	}
	si := x.specInstance(sf)
	rt := x.specParamType(sf, sf.Result)
	if si.decl == "" {
		// inside its own definition (recursion): heap args placeholder
		if len(terms) == 0 {
			return leaf(rt, fmt.Sprintf("(%s <HEAPARGS:%s>)", si.name, sf.Name))
		}
		return leaf(rt, fmt.Sprintf("(%s %s <HEAPARGS:%s>)", si.name, strings.Join(terms, " "), sf.Name))
	}
	v := e.view()
	for _, k := range si.heapKeys {
		if strings.HasPrefix(k, "G|") {
			terms = append(terms, e.ident(k[2:]).Term)
			continue
		}
		terms = append(terms, x.heapArr(v, k, si.heapSort[k]))
	}
	if len(terms) == 0 {
		return leaf(rt, si.name)
	}
	return leaf(rt, fmt.Sprintf("(%s %s)", si.name, strings.Join(terms, " ")))
}

// havocLocation forgets the contents of one assigns-clause location.
func (x *Exec) havocLocation(env *Env, c *Clause) {
	st := env.st
	defer func() {
		if r := recover(); r != nil {
			if ee, ok := r.(evalError); ok {
				x.bindErrors = append(x.bindErrors, fmt.Sprintf("%s:%d: assigns %s: %s", c.File, c.Line, c.Src, ee.msg))
				x.havocAllHeap(st)
				return
			}
			panic(r)
		}
	}()
	if ce, ok := c.Expr.(*ast.CallExpr); ok && identName(ce.Fun) == "except" {
		// except(pkg, ...): anything may change except the state of types declared in the listed packages
		pkgs := x.eng.exceptPkgs(env.pkgPath, ce)
		if pkgs == nil {
			env.fail("cannot resolve %s", c.Src)
		}
		x.havocExcept(st, pkgs)
		return
	}
	if ce, ok := c.Expr.(*ast.CallExpr); ok && (identName(ce.Fun) == "all" || identName(ce.Fun) == "elems") {
		ks := x.eng.allKeysOf(env.pkgPath, ce)
		if len(ks) == 0 {
			env.fail("cannot resolve %s", c.Src)
		}
		for k, s := range ks {
			x.arrSort[k] = s
			x.havocHeapArr(st, k)
		}
		return
	}
	if id, ok := c.Expr.(*ast.Ident); ok {
		if g, isG := x.eng.cs.Ghosts[id.Name]; isG {
			st.ghost[id.Name] = x.freshValue(st, x.eng.ghostType(g), "ghost_"+id.Name)
			st.written["G|"+id.Name] = true
			return
		}
		if id.Name == "heap" {
			x.havocAllHeap(st)
			return
		}
		if id.Name == "dbstate" {
			for k, srt := range dbStateKeys {
				x.arrSort[k] = srt
				x.havocHeapArr(st, k)
			}
			return
		}
		if id.Name == "syncmaps" {
			for _, k := range []string{"MD|sync.Map", "MV|sync.Map|$tag", "MV|sync.Map|$val"} {
				if k == "MD|sync.Map" {
					x.arrSort[k] = "Bool"
				} else {
					x.arrSort[k] = "Int"
				}
				x.havocHeapArr(st, k)
			}
			return
		}
	}
	lv := env.lvalue(c.Expr)
	_, t := pathInfo(lv.P.Root, lv.P.Path)
	if lv.P.Ghost != "" {
		t = lv.P.GhostT
	}
	x.store(st, lv.P, x.freshValue(st, t, "assigned"))
}

func (e *Env) tryEval(ex ast.Expr) (v *Value) {
	defer func() {
		if r := recover(); r != nil {
			if _, ok := r.(evalError); ok {
				v = nil
				return
			}
			panic(r)
		}
	}()
	return e.eval(ex)
}

// ghostFieldInfo: declared ghost field of the struct type pointed to by t.
func (e *Env) ghostFieldInfo(t types.Type, name string) (types.Type, types.Type, bool) {
	pt, ok := t.Underlying().(*types.Pointer)
	if !ok {
		return nil, nil, false
	}
	n, ok := pt.Elem().(*types.Named)
	if !ok || n.Obj().Pkg() == nil {
		return nil, nil, false
	}
	k := n.Obj().Pkg().Path() + "." + n.Obj().Name()
	m := e.x.eng.cs.GhostFields[k]
	if m == nil {
		return nil, nil, false
	}
	ts, ok := m[name]
	if !ok {
		return nil, nil, false
	}
	ex, err := parseTypeExpr(ts)
	if err != nil {
		e.fail("ghost field %s: bad type", name)
	}
	env := &Env{x: e.x, pkg: e.x.eng.typesPkg(e.x.eng.cs.GhostFieldPkg[k]), pkgPath: e.x.eng.cs.GhostFieldPkg[k]}
	return pt.Elem(), env.typeExpr(ex), true
}

func (e *Env) ghostField(b *Value, name string) *Value {
	if b.T == nil || b.K != KPtr {
		return nil
	}
	root, ft, ok := e.ghostFieldInfo(b.T, name)
	if !ok {
		return nil
	}
	x := e.x
	key := "F|" + typeKey(root) + "|$" + name
	base := x.ptrTerm(b.P)
	return e.withView(func(v *State) *Value {
		return mkValue(ft, func(l Leaf) string {
			return fmt.Sprintf("(select %s %s)", x.heapArr(v, key+l.Path, l.Sort), base)
		})
	})
}

// pureContract resolves a call target in a contract expression to a Go function with a pure contract.
func (e *Env) pureContract(fun ast.Expr) *FuncContract {
	var parts []string
	ex := fun
	for {
		if se, ok := ex.(*ast.SelectorExpr); ok {
			parts = append([]string{se.Sel.Name}, parts...)
			ex = se.X
			continue
		}
		if id, ok := ex.(*ast.Ident); ok {
			parts = append([]string{id.Name}, parts...)
		} else {
			return nil
		}
		break
	}
	x := e.x
	try := func(pkg, key string) *FuncContract {
		if fc, ok := x.eng.cs.Funcs[pkg+"::"+key]; ok && fc.Pure && !fc.Extern {
			return fc
		}
		return nil
	}
	if fc := try(e.pkgPath, strings.Join(parts, ".")); fc != nil && len(parts) <= 2 {
		return fc
	}
	if len(parts) >= 2 {
		if _, isName := e.names[parts[0]]; !isName {
			if p := e.importedPkg(parts[0]); p != nil {
				if fc := try(p.Path(), strings.Join(parts[1:], ".")); fc != nil {
					return fc
				}
			}
		}
	}
	return nil
}
