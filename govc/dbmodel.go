package main

import (
	"fmt"
	"go/types"
	"strings"

	"golang.org/x/tools/go/ssa"
)

// Model of the tm-db key-value store (ASSUMED semantics of the dependency):
//   dbdom[db][key]  : key present           (heap key "MD|dbm")
//   dbval[db][key]  : stored value (bytes)  (heap key "MV|dbm|val")
//   dbcnt[db][c]    : number of present keys whose first byte is c (heap key "MV|dbm|cnt")
// Every operation may fail (non-nil error) without changing anything.
// Batches accumulate per-key operations (last one wins) and apply them at Write/WriteSync.

const dbPkg = "github.com/tendermint/tm-db"

// dbStateKeys: the heap arrays of the key-value store model (`assigns dbstate`).
var dbStateKeys = map[string]string{"MD|dbm": "Bool", "MV|dbm|val": "Int", "MV|dbm|cnt": "Int", "F|dbm|$writes": "Int",
	"MV|dbmbatch|op": "Int", "MV|dbmbatch|val": "Int", "F|dbmbatch|db": "Int"}

func (x *Exec) dbRef(v *Value) string {
	if v.K == KIface {
		return v.Fs[1].Term
	}
	ts := x.flatten(v)
	return ts[0]
}

// dbWritesMayFail: when false (the stated assumption), tm-db operations return a nil error.
var dbWritesMayFail = false

func (x *Exec) dbErr(st *State, name string) *Value {
	if !dbWritesMayFail {
		return x.zeroValue(st, types.Universe.Lookup("error").Type())
	}
	tag := x.fresh(st, "dberr_tag_"+name, "Int")
	val := x.fresh(st, "dberr_val_"+name, "Int")
	st.assume(fmt.Sprintf("(>= %s 0)", tag))
	st.assume(fmt.Sprintf("(=> (= %s 0) (= %s 0))", tag, val))
	errT := types.Universe.Lookup("error").Type()
	return &Value{K: KIface, T: errT, Fs: []*Value{intLeaf(tag), intLeaf(val)}}
}

func (x *Exec) dbArrays(st *State) (dom, val, cnt string) {
	return x.heapArr(st, "MD|dbm", "Bool"), x.heapArr(st, "MV|dbm|val", "Int"), x.heapArr(st, "MV|dbm|cnt", "Int")
}

// dbApplySet: state after a successful Set(key,value) on db.
func (x *Exec) dbApply(st *State, db, key, value string, del bool, okCond string) {
	dom, val, cnt := x.dbArrays(st)
	present := fmt.Sprintf("(select (select %s %s) %s)", dom, db, key)
	cls := fmt.Sprintf("(bat %s 0)", key)
	oldc := fmt.Sprintf("(select (select %s %s) %s)", cnt, db, cls)
	var ndom, nval, ncnt string
	st.assume(fmt.Sprintf("(>= %s 0)", oldc))
	st.assume(fmt.Sprintf("(=> %s (>= %s 1))", present, oldc))
	if del {
		ndom = fmt.Sprintf("(store %s %s (store (select %s %s) %s false))", dom, db, dom, db, key)
		nval = val
		ncnt = fmt.Sprintf("(store %s %s (store (select %s %s) %s (ite %s (- %s 1) %s)))", cnt, db, cnt, db, cls, present, oldc, oldc)
	} else {
		ndom = fmt.Sprintf("(store %s %s (store (select %s %s) %s true))", dom, db, dom, db, key)
		nval = fmt.Sprintf("(store %s %s (store (select %s %s) %s %s))", val, db, val, db, key, value)
		ncnt = fmt.Sprintf("(store %s %s (store (select %s %s) %s (ite %s %s (+ %s 1))))", cnt, db, cnt, db, cls, present, oldc, oldc)
	}
	x.setHeapArr(st, "MD|dbm", "Bool", fmt.Sprintf("(ite %s %s %s)", okCond, ndom, dom))
	if !del {
		x.setHeapArr(st, "MV|dbm|val", "Int", fmt.Sprintf("(ite %s %s %s)", okCond, nval, val))
	}
	x.setHeapArr(st, "MV|dbm|cnt", "Int", fmt.Sprintf("(ite %s %s %s)", okCond, ncnt, cnt))
	x.dbJournal(st, db, key, del, okCond)
}

// dbJournal: ghost write counter per database (number of successful writes so far), for ordering contracts.
func (x *Exec) dbJournal(st *State, db, key string, del bool, okCond string) {
	j := x.heapArr(st, "F|dbm|$writes", "Int")
	x.setHeapArr(st, "F|dbm|$writes", "Int", fmt.Sprintf("(ite %s (store %s %s (+ (select %s %s) 1)) %s)", okCond, j, db, j, db, j))
}

func (x *Exec) dbModel(st *State, full string, recv *Value, args []*Value, k Cont) bool {
	if !strings.HasPrefix(full, "("+dbPkg+".") {
		return false
	}
	m := full[strings.LastIndex(full, ".")+1:]
	isBatch := strings.Contains(full, ".Batch)")
	isDB := strings.Contains(full, ".DB)")
	bytesT := types.NewSlice(types.Typ[types.Uint8])
	if isDB {
		db := x.dbRef(recv)
		switch m {
		case "Has":
			dom, _, _ := x.dbArrays(st)
			err := x.zeroValue(st, types.Universe.Lookup("error").Type()) // ASSUMED: reads do not fail
			ok := fmt.Sprintf("(select (select %s %s) %s)", dom, db, args[0].Term)
			k(st, []*Value{boolLeaf(ok), err})
			return true
		case "Get":
			dom, val, _ := x.dbArrays(st)
			err := x.zeroValue(st, types.Universe.Lookup("error").Type()) // ASSUMED: reads do not fail
			v := fmt.Sprintf("(ite (select (select %s %s) %s) (select (select %s %s) %s) 0)", dom, db, args[0].Term, val, db, args[0].Term)
			k(st, []*Value{leaf(bytesT, v), err})
			return true
		case "Set", "SetSync":
			err := x.dbErr(st, "set")
			x.dbApply(st, db, args[0].Term, args[1].Term, false, fmt.Sprintf("(= %s 0)", err.Fs[0].Term))
			k(st, []*Value{err})
			return true
		case "Delete", "DeleteSync":
			err := x.dbErr(st, "del")
			x.dbApply(st, db, args[0].Term, "0", true, fmt.Sprintf("(= %s 0)", err.Fs[0].Term))
			k(st, []*Value{err})
			return true
		case "NewBatch":
			b := x.freshRef(st, "batch")
			// empty batch bound to db
			bo := x.heapArr(st, "MV|dbmbatch|op", "Int")
			x.setHeapArr(st, "MV|dbmbatch|op", "Int", fmt.Sprintf("(store %s %s ((as const (Array Int Int)) 0))", bo, b))
			bd := x.heapArr(st, "F|dbmbatch|db", "Int")
			x.setHeapArr(st, "F|dbmbatch|db", "Int", fmt.Sprintf("(store %s %s %s)", bd, b, db))
			bt := types.NewInterfaceType(nil, nil)
			if sig, ok := recvMethodSig(recv, "NewBatch"); ok {
				bt2 := sig.Results().At(0).Type()
				k(st, []*Value{{K: KIface, T: bt2, Fs: []*Value{intLeaf(x.tagOf(bt2)), intLeaf(b)}}})
				return true
			}
			k(st, []*Value{{K: KIface, T: bt, Fs: []*Value{intLeaf("1"), intLeaf(b)}}})
			return true
		case "Close", "Print":
			k(st, []*Value{x.dbErr(st, "close")})
			return true
		}
		return false
	}
	if isBatch {
		b := x.dbRef(recv)
		switch m {
		case "Set", "Delete":
			err := x.dbErr(st, "bset")
			bo := x.heapArr(st, "MV|dbmbatch|op", "Int")
			op := "1"
			if m == "Delete" {
				op = "2"
			}
			okc := fmt.Sprintf("(= %s 0)", err.Fs[0].Term)
			x.setHeapArr(st, "MV|dbmbatch|op", "Int", fmt.Sprintf("(ite %s (store %s %s (store (select %s %s) %s %s)) %s)", okc, bo, b, bo, b, args[0].Term, op, bo))
			if m == "Set" {
				bv := x.heapArr(st, "MV|dbmbatch|val", "Int")
				x.setHeapArr(st, "MV|dbmbatch|val", "Int", fmt.Sprintf("(ite %s (store %s %s (store (select %s %s) %s %s)) %s)", okc, bv, b, bv, b, args[0].Term, args[1].Term, bv))
			}
			k(st, []*Value{err})
			return true
		case "Write", "WriteSync":
			err := x.dbErr(st, "bwrite")
			okc := fmt.Sprintf("(= %s 0)", err.Fs[0].Term)
			bo := x.heapArr(st, "MV|dbmbatch|op", "Int")
			bv := x.heapArr(st, "MV|dbmbatch|val", "Int")
			bd := x.heapArr(st, "F|dbmbatch|db", "Int")
			db := fmt.Sprintf("(select %s %s)", bd, b)
			dom, val, _ := x.dbArrays(st)
			x.havocHeapArr(st, "MD|dbm")
			x.havocHeapArr(st, "MV|dbm|val")
			x.arrSort["MV|dbm|cnt"] = "Int"
			x.havocHeapArr(st, "MV|dbm|cnt") // counts after a batch are not tracked
			ndom, nval := st.heap["MD|dbm"], st.heap["MV|dbm|val"]
			st.assume(fmt.Sprintf("(forall ((qd Int) (qk Int)) (! (= (select (select %s qd) qk) (ite (and %s (= qd %s) (= (select (select %s %s) qk) 1)) true (ite (and %s (= qd %s) (= (select (select %s %s) qk) 2)) false (select (select %s qd) qk)))) :pattern ((select (select %s qd) qk))))",
				ndom, okc, db, bo, b, okc, db, bo, b, dom, ndom))
			st.assume(fmt.Sprintf("(forall ((qd Int) (qk Int)) (! (= (select (select %s qd) qk) (ite (and %s (= qd %s) (= (select (select %s %s) qk) 1)) (select (select %s %s) qk) (select (select %s qd) qk))) :pattern ((select (select %s qd) qk))))",
				nval, okc, db, bo, b, bv, b, val, nval))
			x.dbJournal(st, db, "0", false, okc)
			k(st, []*Value{err})
			return true
		case "Close":
			k(st, []*Value{x.dbErr(st, "bclose")})
			return true
		}
	}
	return false
}

func recvMethodSig(recv *Value, name string) (*types.Signature, bool) {
	if recv.T == nil {
		return nil, false
	}
	obj, _, _ := types.LookupFieldOrMethod(recv.T, true, nil, name)
	if f, ok := obj.(*types.Func); ok {
		return f.Type().(*types.Signature), true
	}
	return nil, false
}

// sprintfModel: fmt.Sprintf as a deterministic function of its format and argument values.
func (x *Exec) sprintfModel(st *State, rt types.Type, args []*Value) *Value {
	if len(args) != 2 || args[0].K != KLeaf || args[1].K != KSlice {
		return x.freshValue(st, rt, "sprintf")
	}
	n, ok := constInt(args[1].Fs[2].Term)
	if !ok || n > 4 {
		return x.freshValue(st, rt, "sprintf")
	}
	anyT := types.NewInterfaceType(nil, nil)
	terms := []string{args[0].Term}
	for i := 0; i < n; i++ {
		p := &Pointer{Base: args[1].Fs[0].Term, Idx: sidxTerm(args[1].Fs[1].Term, fmt.Sprint(i)), Root: anyT}
		ev := x.load(st, p, anyT)
		terms = append(terms, ev.Fs[0].Term, ev.Fs[1].Term)
	}
	fn := fmt.Sprintf("sprintf%d", n)
	x.globalDecl(fn, fmt.Sprintf("(declare-fun %s (%s) Int)", fn, strings.TrimSpace(strings.Repeat("Int ", len(terms)))))
	t := fmt.Sprintf("(%s %s)", fn, strings.Join(terms, " "))
	return leaf(rt, t)
}

var _ = ssa.NaiveForm
