package main

import (
	"fmt"
	"go/ast"
	"go/parser"
	"os"
	"path/filepath"
	"regexp"
	"strconv"
	"strings"
)

// Clause is one labelled contract expression.
type Clause struct {
	ObjInv bool // from a `maintains` clause: an object invariant over unexported state
	Label string
	Src   string
	Expr  ast.Expr
	File  string
	Line  int
}

type LoopSpec struct {
	Invariants []*Clause
	Decreases  *Clause
}

// FuncContract is the contract of one function, method or interface method.
type FuncContract struct {
	Key      string // as written, e.g. "ValidatorSet.VerifyCommit"
	PkgPath  string
	Extern   bool
	Requires []*Clause
	Ensures  []*Clause
	Loops    map[int]*LoopSpec
	Assigns  []*Clause // location expressions; nil = computed write set
	AssignsNone bool
	Checks   map[string]bool // ovf, bounds, nil, nopanic, conv
	Inline   bool
	Pure     bool // result is a deterministic function of leaf args
	PureRefs bool // `purefn`: as Pure, but arguments may be references whose targets are assumed unchanged between uses (no syntactic check)
	Trusted  bool // contract assumed, body not verified
	Uses     []string // lemmas assumed (proved separately)
	Sets     []*GhostSet // ghost updates performed at return (definitional)
	Grants   []*Clause // definitional facts about inductively defined ghost predicates: assumed at call sites, not proved in the body
	AtCall   map[string][]*Clause // callee short name -> assertions that must hold at each of its call sites in this function
	Asserts  []*Clause // "assert before call <callee>" clauses etc (unused)
	File     string
	Line     int
}

// GhostSet: `sets g = expr when cond` — the ghost variable g is assigned at return of the function.
type GhostSet struct {
	Ghost string
	Expr  *Clause
	Cond  *Clause
}

type SpecFunc struct {
	Name    string
	PkgPath string
	Params  []SpecParam
	Result  string // type expr source
	Body    *Clause
	Sig     string
}

type SpecParam struct {
	Name string
	Type string
}

type GhostVar struct {
	Name    string
	Type    string
	PkgPath string
}

type Lemma struct {
	Name     string
	PkgPath  string
	Params   []SpecParam
	Requires []*Clause
	Ensures  []*Clause
	Induct   string
}

// Contracts holds everything read from the zz_verif_contracts*.go files.
type Contracts struct {
	Funcs   map[string]*FuncContract // pkgpath + "::" + key
	Specs   map[string]*SpecFunc     // by name (global namespace)
	Ghosts  map[string]*GhostVar
	Axioms  []*Clause
	AxiomPkg map[*Clause]string
	Lemmas  []*Lemma
	Imports map[string]map[string]string // pkgpath -> alias -> path
	InlineKeys map[string]bool
	GhostFields map[string]map[string]string // pkgpath.Type -> field -> type expr
	GhostFieldPkg map[string]string
}

func NewContracts() *Contracts {
	return &Contracts{Funcs: map[string]*FuncContract{}, Specs: map[string]*SpecFunc{}, Ghosts: map[string]*GhostVar{},
		Imports: map[string]map[string]string{}, AxiomPkg: map[*Clause]string{}, InlineKeys: map[string]bool{}, GhostFields: map[string]map[string]string{}, GhostFieldPkg: map[string]string{}}
}

var labelRe = regexp.MustCompile(`^([A-Za-z_][A-Za-z0-9_]*):\s+(.*)$`)

// rewriteImplies turns `A ==> B` into implies(A, B) and `A <==> B` into iff(A, B) at paren depth 0 (recursively inside parens/calls).
func rewriteImplies(s string) string {
	// first rewrite inside parenthesised groups
	var out strings.Builder
	depth := 0
	start := -1
	for i := 0; i < len(s); i++ {
		c := s[i]
		if c == '(' || c == '[' {
			if depth == 0 {
				out.WriteByte(c)
				start = i + 1
			}
			depth++
			continue
		}
		if c == ')' || c == ']' {
			depth--
			if depth == 0 {
				inner := s[start:i]
				out.WriteString(rewriteArgs(inner))
				out.WriteByte(c)
			}
			continue
		}
		if depth == 0 {
			out.WriteByte(c)
		}
	}
	t := out.String()
	// now split at top-level <==> then ==>
	if i := topLevelIndex(t, "<==>"); i >= 0 {
		return "iff(" + rewriteImplies(t[:i]) + ", " + rewriteImplies(t[i+4:]) + ")"
	}
	if i := topLevelIndex(t, "==>"); i >= 0 {
		return "implies(" + rewriteImplies(t[:i]) + ", " + rewriteImplies(t[i+3:]) + ")"
	}
	return t
}

// rewriteArgs rewrites each comma-separated top-level piece.
func rewriteArgs(s string) string {
	var parts []string
	depth := 0
	last := 0
	for i := 0; i < len(s); i++ {
		switch s[i] {
		case '(', '[', '{':
			depth++
		case ')', ']', '}':
			depth--
		case ',':
			if depth == 0 {
				parts = append(parts, s[last:i])
				last = i + 1
			}
		}
	}
	parts = append(parts, s[last:])
	for i, p := range parts {
		parts[i] = rewriteImplies(p)
	}
	return strings.Join(parts, ",")
}

func topLevelIndex(s, op string) int {
	depth := 0
	for i := 0; i+len(op) <= len(s); i++ {
		switch s[i] {
		case '(', '[', '{':
			depth++
		case ')', ']', '}':
			depth--
		}
		if depth == 0 && strings.HasPrefix(s[i:], op) {
			if op == "==>" && i > 0 && s[i-1] == '<' {
				continue
			}
			return i
		}
	}
	return -1
}

func parseClause(src, file string, line int, wantLabel bool) (*Clause, error) {
	c := &Clause{File: file, Line: line}
	s := strings.TrimSpace(src)
	if m := labelRe.FindStringSubmatch(s); m != nil && wantLabel {
		c.Label = m[1]
		s = m[2]
	}
	c.Src = s
	e, err := parser.ParseExpr(rewriteImplies(s))
	if err != nil {
		return nil, fmt.Errorf("%s:%d: cannot parse %q: %v", file, line, s, err)
	}
	c.Expr = e
	return c, nil
}

func parseParams(s string) []SpecParam {
	var ps []SpecParam
	s = strings.TrimSpace(s)
	if s == "" {
		return nil
	}
	depth := 0
	last := 0
	var parts []string
	for i := 0; i < len(s); i++ {
		switch s[i] {
		case '(', '[':
			depth++
		case ')', ']':
			depth--
		case ',':
			if depth == 0 {
				parts = append(parts, s[last:i])
				last = i + 1
			}
		}
	}
	parts = append(parts, s[last:])
	for _, p := range parts {
		p = strings.TrimSpace(p)
		i := strings.IndexAny(p, " \t")
		if i < 0 {
			ps = append(ps, SpecParam{Name: p, Type: "int"})
			continue
		}
		ps = append(ps, SpecParam{Name: p[:i], Type: strings.TrimSpace(p[i+1:])})
	}
	return ps
}

var specFuncRe = regexp.MustCompile(`^spec\s+func\s+([A-Za-z_][A-Za-z0-9_]*)\((.*?)\)\s*([^=]*?)\s*(=\s*(.*))?$`)
var lemmaRe = regexp.MustCompile(`^lemma\s+([A-Za-z_][A-Za-z0-9_]*)\((.*)\)\s*$`)

// LoadContractFile parses one contract file.
func (cs *Contracts) LoadContractFile(path, pkgPath string) error {
	data, err := os.ReadFile(path)
	if err != nil {
		return err
	}
	return cs.LoadContractText(string(data), path, pkgPath)
}

func (cs *Contracts) LoadContractText(text, path, pkgPath string) error {
	lines := strings.Split(text, "\n")
	// join continuation lines ("//@ |")
	type ln struct {
		s string
		n int
	}
	var items []ln
	for i, l := range lines {
		l = strings.TrimSpace(l)
		if !strings.HasPrefix(l, "//@") {
			continue
		}
		body := strings.TrimSpace(l[3:])
		if strings.HasPrefix(body, "|") && len(items) > 0 {
			items[len(items)-1].s += " " + strings.TrimSpace(body[1:])
			continue
		}
		if body == "" || strings.HasPrefix(body, "#") {
			continue
		}
		items = append(items, ln{body, i + 1})
	}
	var cur *FuncContract
	var curLemma *Lemma
	base := filepath.Base(path)
	for _, it := range items {
		s := it.s
		// strip trailing comment " // ..."
		if i := strings.Index(s, " //"); i >= 0 {
			s = strings.TrimSpace(s[:i])
		}
		fields := strings.Fields(s)
		kw := fields[0]
		rest := strings.TrimSpace(strings.TrimPrefix(s, kw))
		switch kw {
		case "import":
			if len(fields) != 3 {
				return fmt.Errorf("%s:%d: import alias path", base, it.n)
			}
			if cs.Imports[pkgPath] == nil {
				cs.Imports[pkgPath] = map[string]string{}
			}
			cs.Imports[pkgPath][fields[1]] = fields[2]
			cur, curLemma = nil, nil
		case "ghost":
			if len(fields) >= 4 && fields[1] == "field" {
				// ghost field Type.name type
				tf := strings.Split(fields[2], ".")
				gp := pkgPath
				if len(tf) == 3 {
					// alias.Type.name
					if m := cs.Imports[pkgPath]; m != nil && m[tf[0]] != "" {
						gp = m[tf[0]]
						tf = tf[1:]
					}
				}
				if len(tf) != 2 {
					return fmt.Errorf("%s:%d: ghost field [alias.]Type.name type", base, it.n)
				}
				k := gp + "." + tf[0]
				if cs.GhostFields[k] == nil {
					cs.GhostFields[k] = map[string]string{}
				}
				cs.GhostFields[k][tf[1]] = strings.Join(fields[3:], " ")
				cs.GhostFieldPkg[k] = pkgPath
				cur, curLemma = nil, nil
				continue
			}
			// ghost var name type
			if len(fields) < 4 || fields[1] != "var" {
				return fmt.Errorf("%s:%d: ghost var name type", base, it.n)
			}
			if prev := cs.Ghosts[fields[2]]; prev != nil && (prev.PkgPath != pkgPath || prev.Type != strings.Join(fields[3:], " ")) {
				return fmt.Errorf("%s:%d: ghost var %s is already declared in %s (ghost names are global)", base, it.n, fields[2], prev.PkgPath)
			}
			cs.Ghosts[fields[2]] = &GhostVar{Name: fields[2], Type: strings.Join(fields[3:], " "), PkgPath: pkgPath}
			cur, curLemma = nil, nil
		case "spec":
			m := specFuncRe.FindStringSubmatch(s)
			if m == nil {
				return fmt.Errorf("%s:%d: bad spec func: %s", base, it.n, s)
			}
			sf := &SpecFunc{Name: m[1], PkgPath: pkgPath, Params: parseParams(m[2]), Result: strings.TrimSpace(m[3]), Sig: s}
			if sf.Result == "" {
				sf.Result = "bool"
			}
			if m[5] != "" {
				c, err := parseClause(m[5], base, it.n, false)
				if err != nil {
					return err
				}
				sf.Body = c
			}
			if prev := cs.Specs[sf.Name]; prev != nil && strings.Join(strings.Fields(prev.Sig), " ") != strings.Join(strings.Fields(sf.Sig), " ") {
				return fmt.Errorf("%s:%d: spec func %s is declared differently in %s (spec function names are global)", base, it.n, sf.Name, prev.PkgPath)
			}
			cs.Specs[sf.Name] = sf
			cur, curLemma = nil, nil
		case "axiom":
			c, err := parseClause(rest, base, it.n, true)
			if err != nil {
				return err
			}
			cs.Axioms = append(cs.Axioms, c)
			cs.AxiomPkg[c] = pkgPath
			cur, curLemma = nil, nil
		case "lemma":
			m := lemmaRe.FindStringSubmatch(s)
			if m == nil {
				return fmt.Errorf("%s:%d: bad lemma: %s", base, it.n, s)
			}
			curLemma = &Lemma{Name: m[1], PkgPath: pkgPath, Params: parseParams(m[2])}
			cs.Lemmas = append(cs.Lemmas, curLemma)
			cur = nil
		case "func", "extern":
			if len(fields) < 2 {
				return fmt.Errorf("%s:%d: func needs a key", base, it.n)
			}
			key := fields[1]
			cur = &FuncContract{Key: key, PkgPath: pkgPath, Extern: kw == "extern", Loops: map[int]*LoopSpec{}, Checks: map[string]bool{}, File: base, Line: it.n}
			if prev := cs.Funcs[pkgPath+"::"+key]; prev != nil {
				return fmt.Errorf("%s:%d: duplicate contract for %s (first at line %d)", base, it.n, key, prev.Line)
			}
			cs.Funcs[pkgPath+"::"+key] = cur
			curLemma = nil
		case "inline":
			for _, k := range fields[1:] {
				cs.InlineKeys[pkgPath+"::"+k] = true
			}
		case "grants":
			if cur == nil {
				return fmt.Errorf("%s:%d: grants outside func", base, it.n)
			}
			cl, err := parseClause(rest, base, it.n, true)
			if err != nil {
				return err
			}
			if cl.Label == "" {
				cl.Label = "g" + strconv.Itoa(len(cur.Grants)+1)
			}
			cur.Grants = append(cur.Grants, cl)
		case "relies":
			// relies l: e  ==  requires l: e that is an OBJECT INVARIANT (see maintains) without the ensures half: assumed
			// at call sites in other packages, proved at call sites inside the declaring package.
			if cur == nil {
				return fmt.Errorf("%s:%d: relies outside func", base, it.n)
			}
			c1, err := parseClause(rest, base, it.n, true)
			if err != nil {
				return err
			}
			if c1.Label == "" {
				c1.Label = "i" + strconv.Itoa(len(cur.Requires)+1)
			}
			c1.ObjInv = true
			cur.Requires = append(cur.Requires, c1)
		case "maintains":
			// maintains l: e  ==  requires l: e + ensures l: e, where the requires half is an OBJECT INVARIANT: it is
			// proved at call sites inside the declaring package and assumed at call sites in other packages (which
			// cannot touch the unexported state it talks about).
			if cur == nil {
				return fmt.Errorf("%s:%d: maintains outside func", base, it.n)
			}
			c1, err := parseClause(rest, base, it.n, true)
			if err != nil {
				return err
			}
			if c1.Label == "" {
				c1.Label = "m" + strconv.Itoa(len(cur.Requires)+1)
			}
			c1.ObjInv = true
			c2 := *c1
			cur.Requires = append(cur.Requires, c1)
			cur.Ensures = append(cur.Ensures, &c2)
		case "requires", "ensures":
			c, err := parseClause(rest, base, it.n, true)
			if err != nil {
				return err
			}
			if curLemma != nil {
				if kw == "requires" {
					curLemma.Requires = append(curLemma.Requires, c)
				} else {
					curLemma.Ensures = append(curLemma.Ensures, c)
				}
				continue
			}
			if cur == nil {
				return fmt.Errorf("%s:%d: %s outside func", base, it.n, kw)
			}
			if c.Label == "" {
				if kw == "requires" {
					c.Label = "r" + strconv.Itoa(len(cur.Requires)+1)
				} else {
					c.Label = "e" + strconv.Itoa(len(cur.Ensures)+1)
				}
			}
			if kw == "requires" {
				cur.Requires = append(cur.Requires, c)
			} else {
				cur.Ensures = append(cur.Ensures, c)
			}
		case "induction":
			if curLemma != nil && len(fields) >= 3 {
				curLemma.Induct = fields[2]
			}
		case "loop":
			if cur == nil || len(fields) < 3 {
				return fmt.Errorf("%s:%d: bad loop clause", base, it.n)
			}
			k, err := strconv.Atoi(fields[1])
			if err != nil {
				return fmt.Errorf("%s:%d: loop ordinal", base, it.n)
			}
			ls := cur.Loops[k]
			if ls == nil {
				ls = &LoopSpec{}
				cur.Loops[k] = ls
			}
			idx := strings.Index(s, fields[2])
			exprSrc := strings.TrimSpace(s[idx+len(fields[2]):])
			c, err := parseClause(exprSrc, base, it.n, true)
			if err != nil {
				return err
			}
			switch fields[2] {
			case "invariant":
				if c.Label == "" {
					c.Label = "i" + strconv.Itoa(len(ls.Invariants)+1)
				}
				ls.Invariants = append(ls.Invariants, c)
			case "decreases":
				ls.Decreases = c
			default:
				return fmt.Errorf("%s:%d: loop %s?", base, it.n, fields[2])
			}
		case "assigns":
			if cur == nil {
				return fmt.Errorf("%s:%d: assigns outside func", base, it.n)
			}
			if rest == "nothing" {
				cur.AssignsNone = true
				continue
			}
			for _, part := range strings.Split(rewriteArgsKeep(rest), "\x00") {
				c, err := parseClause(part, base, it.n, false)
				if err != nil {
					return err
				}
				cur.Assigns = append(cur.Assigns, c)
			}
		case "checks":
			if cur == nil {
				return fmt.Errorf("%s:%d: checks outside func", base, it.n)
			}
			for _, k := range fields[1:] {
				cur.Checks[k] = true
			}
		case "atcall":
			// atcall <callee> label: expr
			if cur == nil || len(fields) < 3 {
				return fmt.Errorf("%s:%d: atcall <callee> [label:] expr", base, it.n)
			}
			idx := strings.Index(s, fields[1])
			cl, err := parseClause(strings.TrimSpace(s[idx+len(fields[1]):]), base, it.n, true)
			if err != nil {
				return err
			}
			if cl.Label == "" {
				cl.Label = "a" + strconv.Itoa(len(cur.AtCall[fields[1]])+1)
			}
			if cur.AtCall == nil {
				cur.AtCall = map[string][]*Clause{}
			}
			cur.AtCall[fields[1]] = append(cur.AtCall[fields[1]], cl)
		case "sets":
			// sets g = expr when cond
			if cur == nil {
				return fmt.Errorf("%s:%d: sets outside func", base, it.n)
			}
			m := regexp.MustCompile(`^sets\s+([A-Za-z_][A-Za-z0-9_]*)\s*=\s*(.*?)\s+when\s+(.*)$`).FindStringSubmatch(s)
			if m == nil {
				return fmt.Errorf("%s:%d: sets g = expr when cond", base, it.n)
			}
			ex, err := parseClause(m[2], base, it.n, false)
			if err != nil {
				return err
			}
			cd, err := parseClause(m[3], base, it.n, false)
			if err != nil {
				return err
			}
			cur.Sets = append(cur.Sets, &GhostSet{Ghost: m[1], Expr: ex, Cond: cd})
		case "uses":
			if cur != nil {
				cur.Uses = append(cur.Uses, fields[1:]...)
			}
		case "pure":
			if cur != nil {
				cur.Pure = true
			}
		case "purefn":
			if cur != nil {
				cur.Pure = true
				cur.PureRefs = true
			}
		case "trusted":
			if cur != nil {
				cur.Trusted = true
			}
		default:
			return fmt.Errorf("%s:%d: unknown contract keyword %q", base, it.n, kw)
		}
	}
	return nil
}

// rewriteArgsKeep splits a comma separated list at depth 0 using \x00 separators.
func rewriteArgsKeep(s string) string {
	depth := 0
	b := []byte(s)
	for i := 0; i < len(b); i++ {
		switch b[i] {
		case '(', '[', '{':
			depth++
		case ')', ']', '}':
			depth--
		case ',':
			if depth == 0 {
				b[i] = 0
			}
		}
	}
	return string(b)
}
