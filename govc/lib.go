package main

import (
	"fmt"
	"go/types"
	"strings"

	"golang.org/x/tools/go/ssa"
)

func boolLeaf(t string) *Value { return leaf(types.Typ[types.Bool], t) }
func intLeaf(t string) *Value  { return leaf(types.Typ[types.Int], t) }

func (x *Exec) errValue(st *State, t types.Type, what string) *Value {
	val := x.fresh(st, "err_"+what, "Int")
	st.assume(fmt.Sprintf("(> %s 0)", val))
	return &Value{K: KIface, T: t, Fs: []*Value{intLeaf(x.tagOf(types.NewPointer(types.Universe.Lookup("error").Type()))), intLeaf(val)}}
}

// lockKey returns the term identifying a mutex.
func (x *Exec) lockKey(v *Value) string {
	if v.K == KPtr {
		return x.ptrTerm(v.P)
	}
	ts := x.flatten(v)
	if len(ts) > 0 {
		return ts[0]
	}
	return "0"
}

func (x *Exec) setLock(st *State, key string, val string) {
	n := x.fresh(st, "locks", "(Array Int Int)")
	st.assume(fmt.Sprintf("(= %s (store %s %s %s))", n, st.locks, key, val))
	st.locks = n
	st.written["L|"] = true
}

// libModel: semantic models of standard-library and a few module helper functions.
func (x *Exec) libModel(st *State, in ssa.Instruction, callee *ssa.Function, name string, args []*Value, k Cont) bool {
	sig := callee.Signature
	var rt types.Type
	if sig.Results().Len() == 1 {
		rt = sig.Results().At(0).Type()
	}
	ret := func(v *Value) bool { k(st, []*Value{v}); return true }
	switch name {
	case "bytes.Equal":
		return ret(boolLeaf(fmt.Sprintf("(= %s %s)", args[0].Term, args[1].Term)))
	case "bytes.Compare", "strings.Compare":
		a, b := args[0].Term, args[1].Term
		t := fmt.Sprintf("(bcmp %s %s)", a, b)
		st.assume(fmt.Sprintf("(= (= %s 0) (= %s %s))", t, a, b))
		st.assume(fmt.Sprintf("(= %s (- (bcmp %s %s)))", t, b, a))
		st.assume(fmt.Sprintf("(and (<= (- 1) %s) (<= %s 1))", t, t))
		return ret(leaf(rt, t))
	case "(time.Time).After":
		return ret(boolLeaf(fmt.Sprintf("(> %s %s)", args[0].Term, args[1].Term)))
	case "(time.Time).Before":
		return ret(boolLeaf(fmt.Sprintf("(< %s %s)", args[0].Term, args[1].Term)))
	case "(time.Time).Equal":
		return ret(boolLeaf(fmt.Sprintf("(= %s %s)", args[0].Term, args[1].Term)))
	case "(time.Time).IsZero":
		return ret(boolLeaf(fmt.Sprintf("(= %s 0)", args[0].Term)))
	case "(time.Time).Sub":
		return ret(leaf(rt, fmt.Sprintf("(- %s %s)", args[0].Term, args[1].Term)))
	case "(time.Time).Add":
		return ret(leaf(rt, fmt.Sprintf("(+ %s %s)", args[0].Term, args[1].Term)))
	case "(time.Time).UTC", "(time.Time).Round", "(time.Time).Truncate", "(time.Time).Local", "(time.Time).In":
		if name == "(time.Time).Round" || name == "(time.Time).Truncate" {
			if args[1].Term != "0" {
				return ret(leaf(rt, fmt.Sprintf("(timeround %s %s)", args[0].Term, args[1].Term)))
			}
		}
		return ret(leaf(rt, args[0].Term))
	case "(time.Time).UnixNano", "(time.Time).Unix", "(time.Time).UnixMilli":
		return ret(leaf(rt, fmt.Sprintf("(%s %s)", map[string]string{"(time.Time).UnixNano": "unixnano", "(time.Time).Unix": "unixsec", "(time.Time).UnixMilli": "unixmilli"}[name], args[0].Term)))
	case "time.Now":
		return ret(leaf(rt, x.fresh(st, "now", "Int")))
	case "time.Since":
		return ret(leaf(rt, x.fresh(st, "since", "Int")))
	case "time.Unix":
		return ret(leaf(rt, fmt.Sprintf("(timeofunix %s %s)", args[0].Term, args[1].Term)))
	case "errors.New", "fmt.Errorf", "github.com/pkg/errors.New", "github.com/pkg/errors.Errorf", "github.com/pkg/errors.Wrap", "github.com/pkg/errors.Wrapf":
		return ret(x.errValue(st, rt, "new"))
	case "context.WithTimeout", "context.WithCancel", "context.WithDeadline":
		// (ctx, cancel): a fresh context and a cancel function without modelled effect
		rs := x.freshResults(st, sig, "ctx")
		if len(rs) == 2 {
			rs[1] = &Value{K: KFunc, T: sig.Results().At(1).Type(), Fn: &Closure{FnName: "lib:noop"}}
		}
		k(st, rs)
		return true
	case "context.TODO", "context.Background":
		k(st, x.freshResults(st, sig, "ctx"))
		return true
	case "errors.Unwrap":
		// some error, nil when the argument is nil; a deterministic function of the argument
		v := x.freshValue(st, rt, "unwrap")
		if v.K == KIface && len(args) == 1 && args[0].K == KIface {
			x.globalDecl("unwrap_tag", "(declare-fun unwrap_tag (Int Int) Int)")
			x.globalDecl("unwrap_val", "(declare-fun unwrap_val (Int Int) Int)")
			st.assume(fmt.Sprintf("(= %s (unwrap_tag %s %s))", v.Fs[0].Term, args[0].Fs[0].Term, args[0].Fs[1].Term))
			st.assume(fmt.Sprintf("(= %s (unwrap_val %s %s))", v.Fs[1].Term, args[0].Fs[0].Term, args[0].Fs[1].Term))
			st.assume(fmt.Sprintf("(=> (= %s 0) (= %s 0))", args[0].Fs[0].Term, v.Fs[0].Term))
		}
		return ret(v)
	case "errors.Is":
		// errors.Is(nil, target) is false for a non-nil target; errors.Is(e, e) is true
		v := x.freshValue(st, rt, "erris")
		if len(args) == 2 && args[0].K == KIface && args[1].K == KIface {
			st.assume(fmt.Sprintf("(=> (and (= %s 0) (not (= %s 0))) (not %s))", args[0].Fs[0].Term, args[1].Fs[0].Term, v.Term))
			st.assume(fmt.Sprintf("(=> (and (= %s %s) (= %s %s) (not (= %s 0))) %s)", args[0].Fs[0].Term, args[1].Fs[0].Term, args[0].Fs[1].Term, args[1].Fs[1].Term, args[0].Fs[0].Term, v.Term))
		}
		return ret(v)
	case "fmt.Sprintf":
		return ret(x.sprintfModel(st, rt, args))
	case "fmt.Sprint", "fmt.Sprintln":
		v := x.freshValue(st, rt, "sprintf")
		return ret(v)
	case "fmt.Println", "fmt.Printf", "fmt.Print", "fmt.Fprintf", "fmt.Fprintln":
		k(st, x.freshResults(st, sig, "print"))
		return true
	case "(*sync.Mutex).Lock", "(*sync.RWMutex).Lock", "(*github.com/tendermint/tendermint/libs/sync.Mutex).Lock", "(*github.com/tendermint/tendermint/libs/sync.RWMutex).Lock",
		"(*github.com/sasha-s/go-deadlock.Mutex).Lock", "(*github.com/sasha-s/go-deadlock.RWMutex).Lock":
		x.setLock(st, x.lockKey(args[0]), "2")
		k(st, nil)
		return true
	case "(*sync.RWMutex).RLock", "(*github.com/tendermint/tendermint/libs/sync.RWMutex).RLock", "(*github.com/sasha-s/go-deadlock.RWMutex).RLock":
		x.setLock(st, x.lockKey(args[0]), "1")
		k(st, nil)
		return true
	case "(*sync.Mutex).Unlock", "(*sync.RWMutex).Unlock", "(*sync.RWMutex).RUnlock", "(*github.com/tendermint/tendermint/libs/sync.Mutex).Unlock",
		"(*github.com/tendermint/tendermint/libs/sync.RWMutex).Unlock", "(*github.com/tendermint/tendermint/libs/sync.RWMutex).RUnlock",
		"(*github.com/sasha-s/go-deadlock.Mutex).Unlock", "(*github.com/sasha-s/go-deadlock.RWMutex).Unlock", "(*github.com/sasha-s/go-deadlock.RWMutex).RUnlock":
		x.setLock(st, x.lockKey(args[0]), "0")
		k(st, nil)
		return true
	case "(*sync.WaitGroup).Add", "(*sync.WaitGroup).Done", "(*sync.WaitGroup).Wait", "(*sync.Once).Do", "(*sync.Cond).Signal", "(*sync.Cond).Broadcast":
		k(st, nil)
		return true
	case "sync/atomic.LoadInt64", "sync/atomic.LoadInt32", "sync/atomic.LoadUint64", "sync/atomic.LoadUint32":
		if args[0].K == KPtr {
			return ret(x.load(st, args[0].P, rt))
		}
	case "sync/atomic.StoreInt64", "sync/atomic.StoreInt32", "sync/atomic.StoreUint64", "sync/atomic.StoreUint32":
		if args[0].K == KPtr {
			x.store(st, args[0].P, args[1])
			k(st, nil)
			return true
		}
	case "sync/atomic.AddInt64", "sync/atomic.AddInt32", "sync/atomic.AddUint64", "sync/atomic.AddUint32":
		if args[0].K == KPtr {
			old := x.load(st, args[0].P, rt)
			nv := x.arith(st, rt, fmt.Sprintf("(+ %s %s)", old.Term, args[1].Term), "add")
			x.store(st, args[0].P, nv)
			return ret(nv)
		}
	case "github.com/tendermint/tendermint/crypto/tmhash.Sum", "github.com/tendermint/tendermint/crypto/tmhash.SumTruncated":
		fn := "hash_" + smtName(callee.Name())
		t := fmt.Sprintf("(%s %s)", fn, args[0].Term)
		if callee.Name() == "Sum" {
			st.assume(fmt.Sprintf("(= (blen %s) 32)", t))
		} else {
			st.assume(fmt.Sprintf("(= (blen %s) 20)", t))
		}
		return ret(leaf(rt, t))
	case "crypto/sha256.Sum256":
		t := fmt.Sprintf("(hash_sha256 %s)", args[0].Term)
		st.assume(fmt.Sprintf("(= (blen %s) 32)", t))
		return ret(leaf(rt, t))
	case "(*sync.Map).Store":
		x.syncMapStore(st, args[0], args[1], args[2])
		k(st, nil)
		return true
	case "(*sync.Map).Load":
		val, ok := x.syncMapLoad(st, args[0], args[1])
		k(st, []*Value{val, boolLeaf(ok)})
		return true
	case "(*sync.Map).Delete":
		x.syncMapDelete(st, args[0], args[1])
		k(st, nil)
		return true
	case "(*sync.Map).LoadOrStore":
		val, ok := x.syncMapLoad(st, args[0], args[1])
		// stores when absent
		st2 := st
		mref, kt := x.syncMapRefKey(st2, args[0], args[1])
		d := x.heapArr(st2, "MD|sync.Map", "Bool")
		vt := x.heapArr(st2, "MV|sync.Map|$tag", "Int")
		vv := x.heapArr(st2, "MV|sync.Map|$val", "Int")
		x.setHeapArr(st2, "MD|sync.Map", "Bool", fmt.Sprintf("(store %s %s (store (select %s %s) %s true))", d, mref, d, mref, kt))
		x.setHeapArr(st2, "MV|sync.Map|$tag", "Int", fmt.Sprintf("(store %s %s (store (select %s %s) %s (ite %s (select (select %s %s) %s) %s)))", vt, mref, vt, mref, kt, ok, vt, mref, kt, args[2].Fs[0].Term))
		x.setHeapArr(st2, "MV|sync.Map|$val", "Int", fmt.Sprintf("(store %s %s (store (select %s %s) %s (ite %s (select (select %s %s) %s) %s)))", vv, mref, vv, mref, kt, ok, vv, mref, kt, args[2].Fs[1].Term))
		res := &Value{K: KIface, T: val.T, Fs: []*Value{intLeaf(fmt.Sprintf("(ite %s %s %s)", ok, val.Fs[0].Term, args[2].Fs[0].Term)), intLeaf(fmt.Sprintf("(ite %s %s %s)", ok, val.Fs[1].Term, args[2].Fs[1].Term))}}
		k(st, []*Value{res, boolLeaf(ok)})
		return true
	case "(*sync.Map).Range":
		x.note("sync.Map.Range: the map's contents are havocked (callback not analysed)")
		x.arrSort["MD|sync.Map"] = "Bool"
		x.havocHeapArr(st, "MD|sync.Map")
		k(st, nil)
		return true
	case "math/bits.Len", "math/bits.Len64":
		n := x.fresh(st, "bitlen", "Int")
		a := args[0].Term
		st.assume(fmt.Sprintf("(and (<= 0 %s) (<= %s 64))", n, n))
		st.assume(fmt.Sprintf("(= (= %s 0) (= %s 0))", a, n))
		st.assume(fmt.Sprintf("(=> (> %s 0) (and (<= (pow2i (- %s 1)) %s) (< %s (pow2i %s))))", a, n, a, a, n))
		st.assume(fmt.Sprintf("(=> (< %s 9223372036854775808) (<= %s 63))", a, n))
		st.assume(fmt.Sprintf("(=> (>= %s 1) (= (pow2i %s) (* 2 (pow2i (- %s 1)))))", n, n, n))
		st.assume(fmt.Sprintf("(=> (>= %s 2) (= (pow2i (- %s 1)) (* 2 (pow2i (- %s 2)))))", n, n, n))
		st.assume(fmt.Sprintf("(=> (>= %s 1) (> (pow2i (- %s 1)) 0))", n, n))
		return ret(leaf(rt, n))
	case "os.Exit", "github.com/tendermint/tendermint/libs/os.Exit", "log.Fatal", "log.Fatalf":
		x.pathDone()
		return true
	case "sort.Sort", "sort.Stable", "sort.Slice", "sort.SliceStable":
		if len(args) >= 1 && x.sortModel(st, args[0]) {
			k(st, nil)
			return true
		}
		x.note("sort: element arrays of the argument havocked (assumed: result is a permutation)")
		for _, a := range args {
			x.havocReachable(st, a)
		}
		k(st, nil)
		return true
	case "github.com/tendermint/tendermint/libs/fail.Fail":
		k(st, nil)
		return true
	}
	_ = strings.HasPrefix
	return false
}

// havocReachable: havoc the element arrays of a slice value (or the slice held by an interface/pointer argument).
func (x *Exec) havocReachable(st *State, a *Value) {
	switch a.K {
	case KSlice:
		et := a.T.Underlying().(*types.Slice).Elem()
		for _, l := range leaves(et) {
			key := "E|" + typeKey(et) + "|" + l.Path
			x.arrSort[key] = l.Sort
			x.havocHeapArr(st, key)
		}
	case KIface:
		if bv, ok := st.boxes[a.Fs[1].Term]; ok {
			x.havocReachable(st, bv)
		} else {
			x.havocAllHeap(st)
		}
	case KStruct:
		for _, f := range a.Fs {
			x.havocReachable(st, f)
		}
	case KPtr:
		x.havocAllHeap(st)
	}
}

// ifaceModel: models of a few interface methods.
func (x *Exec) ifaceModel(st *State, in ssa.Instruction, c *ssa.CallCommon, full string, recv *Value, args []*Value, k Cont) bool {
	if x.dbModel(st, full, recv, args, k) {
		return true
	}
	switch full {
	case "(error).Error":
		k(st, []*Value{x.freshValue(st, types.Typ[types.String], "errstr")})
		return true
	}
	return false
}

func (x *Exec) syncMapRefKey(st *State, m, key *Value) (string, string) {
	mref := x.lockKey(m)
	kt, _ := x.mapKeyTerm(st, key)
	return mref, kt
}

func (x *Exec) syncMapStore(st *State, m, key, val *Value) {
	mref, kt := x.syncMapRefKey(st, m, key)
	d := x.heapArr(st, "MD|sync.Map", "Bool")
	x.setHeapArr(st, "MD|sync.Map", "Bool", fmt.Sprintf("(store %s %s (store (select %s %s) %s true))", d, mref, d, mref, kt))
	for i, suffix := range []string{"$tag", "$val"} {
		a := x.heapArr(st, "MV|sync.Map|"+suffix, "Int")
		x.setHeapArr(st, "MV|sync.Map|"+suffix, "Int", fmt.Sprintf("(store %s %s (store (select %s %s) %s %s))", a, mref, a, mref, kt, val.Fs[i].Term))
	}
}

func (x *Exec) syncMapLoad(st *State, m, key *Value) (*Value, string) {
	mref, kt := x.syncMapRefKey(st, m, key)
	d := x.heapArr(st, "MD|sync.Map", "Bool")
	ok := fmt.Sprintf("(select (select %s %s) %s)", d, mref, kt)
	at := x.heapArr(st, "MV|sync.Map|$tag", "Int")
	av := x.heapArr(st, "MV|sync.Map|$val", "Int")
	anyT := types.NewInterfaceType(nil, nil)
	val := &Value{K: KIface, T: anyT, Fs: []*Value{
		intLeaf(fmt.Sprintf("(ite %s (select (select %s %s) %s) 0)", ok, at, mref, kt)),
		intLeaf(fmt.Sprintf("(ite %s (select (select %s %s) %s) 0)", ok, av, mref, kt))}}
	return val, ok
}

func (x *Exec) syncMapDelete(st *State, m, key *Value) {
	mref, kt := x.syncMapRefKey(st, m, key)
	d := x.heapArr(st, "MD|sync.Map", "Bool")
	x.setHeapArr(st, "MD|sync.Map", "Bool", fmt.Sprintf("(store %s %s (store (select %s %s) %s false))", d, mref, d, mref, kt))
}

// sortModel: sorting a slice permutes the elements of its window [off, off+len) of the backing array and changes
// nothing else. For the two comparators of package types the order is known as well (their Less methods are under
// contract, so the order assumed here is the order the code implements).
func (x *Exec) sortModel(st *State, a *Value) bool {
	sv := a
	if a.K == KIface {
		bv, ok := st.boxes[a.Fs[1].Term]
		if !ok {
			return false
		}
		sv = bv
	}
	if sv.K != KSlice || sv.T == nil {
		return false
	}
	slt, ok := sv.T.Underlying().(*types.Slice)
	if !ok {
		return false
	}
	et := slt.Elem()
	arr, off, ln := sv.Fs[0].Term, sv.Fs[1].Term, sv.Fs[2].Term
	x.nfresh++
	perm := fmt.Sprintf("perm!%d", x.nfresh)
	inv := fmt.Sprintf("pinv!%d", x.nfresh)
	st.decls = append(st.decls, fmt.Sprintf("(declare-fun %s (Int) Int)", perm), fmt.Sprintf("(declare-fun %s (Int) Int)", inv))
	st.assume(fmt.Sprintf("(forall ((k Int)) (! (=> (and (<= 0 k) (< k %s)) (and (<= 0 (%s k)) (< (%s k) %s) (= (%s (%s k)) k))) :pattern ((%s k))))", ln, perm, perm, ln, inv, perm, perm))
	st.assume(fmt.Sprintf("(forall ((k Int)) (! (=> (and (<= 0 k) (< k %s)) (and (<= 0 (%s k)) (< (%s k) %s) (= (%s (%s k)) k))) :pattern ((%s k))))", ln, inv, inv, ln, perm, inv, inv))
	var newRows []string
	for _, l := range leaves(et) {
		key := "E|" + typeKey(et) + "|" + l.Path
		x.arrSort[key] = l.Sort
		old := x.heapArr(st, key, l.Sort)
		row := x.fresh(st, "sorted", fmt.Sprintf("(Array Int %s)", l.Sort))
		newRows = append(newRows, row)
		st.assume(fmt.Sprintf("(forall ((k Int)) (! (=> (or (< k %s) (>= k (+ %s %s))) (= (select %s k) (select (select %s %s) k))) :pattern ((select %s k))))", off, off, ln, row, old, arr, row))
		st.assume(fmt.Sprintf("(forall ((k Int)) (! (=> (and (<= 0 k) (< k %s)) (= (select %s (sidx %s k)) (select (select %s %s) (sidx %s (%s k))))) :pattern ((select %s (sidx %s k)))))", ln, row, off, old, arr, off, perm, row, off))
		x.setHeapArr(st, key, l.Sort, fmt.Sprintf("(store %s %s %s)", old, arr, row))
	}
	// known orders
	if n, ok := sv.T.(*types.Named); ok && n.Obj().Pkg() != nil && n.Obj().Pkg().Path() == modulePath+"/types" && len(newRows) == 1 {
		vt := et
		if pt, ok := et.Underlying().(*types.Pointer); ok {
			vt = pt.Elem()
		}
		addr := x.heapArr(st, "F|"+typeKey(vt)+"|Address", "Int")
		pow := x.heapArr(st, "F|"+typeKey(vt)+"|VotingPower", "Int")
		row := newRows[0]
		ej := fmt.Sprintf("(select %s (sidx %s j))", row, off)
		ek := fmt.Sprintf("(select %s (sidx %s k))", row, off)
		switch n.Obj().Name() {
		case "ValidatorsByAddress":
			st.assume(fmt.Sprintf("(forall ((j Int) (k Int)) (! (=> (and (<= 0 j) (< j k) (< k %s)) (<= (bcmp (select %s %s) (select %s %s)) 0)) :pattern (%s %s)))", ln, addr, ej, addr, ek, ej, ek))
		case "ValidatorsByVotingPower":
			st.assume(fmt.Sprintf("(forall ((j Int) (k Int)) (! (=> (and (<= 0 j) (< j k) (< k %s)) (or (> (select %s %s) (select %s %s)) (and (= (select %s %s) (select %s %s)) (<= (bcmp (select %s %s) (select %s %s)) 0)))) :pattern (%s %s)))", ln, pow, ej, pow, ek, pow, ej, pow, ek, addr, ej, addr, ek, ej, ek))
		}
	}
	return true
}
