package main

import (
	"bytes"
	"context"
	"crypto/sha256"
	"fmt"
	"os"
	"os/exec"
	"path/filepath"
	"strings"
	"sync"
	"time"
)

type solverSpec struct {
	name string
	argv func(file string, timeoutS int) []string
}

var solvers = []solverSpec{
	{"z3-new", func(f string, t int) []string { return []string{"z3-new", fmt.Sprintf("-T:%d", t), f} }},
	{"cvc5", func(f string, t int) []string {
		return []string{"cvc5", fmt.Sprintf("--tlimit=%d", t*1000), "--full-saturate-quant", f}
	}},
	{"z3", func(f string, t int) []string { return []string{"z3", fmt.Sprintf("-T:%d", t), f} }},
}

func runSolver(ctx context.Context, s solverSpec, file string, timeoutS int) (status, out string, secs float64) {
	t0 := time.Now()
	argv := s.argv(file, timeoutS)
	c, cancel := context.WithTimeout(ctx, time.Duration(timeoutS+2)*time.Second)
	defer cancel()
	cmd := exec.CommandContext(c, argv[0], argv[1:]...)
	var buf bytes.Buffer
	cmd.Stdout = &buf
	cmd.Stderr = &buf
	_ = cmd.Run()
	secs = time.Since(t0).Seconds()
	out = buf.String()
	first := strings.TrimSpace(strings.SplitN(out, "\n", 2)[0])
	switch first {
	case "unsat", "sat", "unknown":
		status = first
	case "timeout":
		status = "timeout"
	default:
		if c.Err() != nil || strings.Contains(out, "timeout") || strings.Contains(out, "interrupted") {
			status = "timeout"
		} else {
			status = "error"
		}
	}
	return
}

// solveOne: z3-new first with a short budget, then race all three.
func solveOne(ob *Obligation, dir string, timeoutS int, wantModel bool) {
	if ob.Status != "" {
		return
	}
	h := sha256.Sum256([]byte(ob.Script))
	file := filepath.Join(dir, fmt.Sprintf("%x.smt2", h[:8]))
	_ = os.WriteFile(file, []byte(ob.Script), 0o644)
	defer os.Remove(file)
	quick := 3
	if timeoutS < quick {
		quick = timeoutS
	}
	status, out, secs := runSolver(context.Background(), solvers[0], file, quick)
	total := secs
	solver := solvers[0].name
	if status != "unsat" && status != "sat" && ob.Kind != "cover" {
		// race
		ctx, cancel := context.WithCancel(context.Background())
		type r struct {
			st, out, name string
			secs          float64
		}
		ch := make(chan r, len(solvers))
		for _, s := range solvers {
			s := s
			go func() {
				st, o, sc := runSolver(ctx, s, file, timeoutS)
				ch <- r{st, o, s.name, sc}
			}()
		}
		best := r{st: status, out: out, name: solver}
		for i := 0; i < len(solvers); i++ {
			x := <-ch
			if x.st == "unsat" || x.st == "sat" {
				best = x
				total += x.secs
				break
			}
			if best.st == "error" || best.st == "" {
				best = x
			}
			if i == len(solvers)-1 {
				total += x.secs
			}
		}
		cancel()
		status, out, solver = best.st, best.out, best.name
	}
	ob.Status, ob.Solver, ob.Seconds, ob.Output = status, solver, total, trimOut(out)
	if status == "sat" && wantModel {
		mfile := file + ".model.smt2"
		_ = os.WriteFile(mfile, []byte(ob.Script+"(get-model)\n"), 0o644)
		_, mout, _ := runSolver(context.Background(), solvers[0], mfile, timeoutS)
		os.Remove(mfile)
		ob.Model = trimModel(mout)
	}
}

func trimOut(s string) string {
	if len(s) > 2000 {
		return s[:2000] + "…"
	}
	return s
}

func trimModel(s string) string {
	if len(s) > 60000 {
		return s[:60000] + "…"
	}
	return s
}

// solveAll discharges obligations in parallel.
func solveAll(obls []*Obligation, timeoutS int, workers int, wantModel bool) {
	dir, err := os.MkdirTemp("", "govc-smt-")
	if err != nil {
		panic(err)
	}
	defer os.RemoveAll(dir)
	// dedupe identical scripts
	byScript := map[string]*Obligation{}
	var uniq []*Obligation
	dups := map[*Obligation][]*Obligation{}
	for _, ob := range obls {
		if ob.Status != "" {
			continue
		}
		if first, ok := byScript[ob.Script]; ok {
			dups[first] = append(dups[first], ob)
			continue
		}
		byScript[ob.Script] = ob
		uniq = append(uniq, ob)
	}
	var wg sync.WaitGroup
	ch := make(chan *Obligation)
	for i := 0; i < workers; i++ {
		wg.Add(1)
		go func() {
			defer wg.Done()
			for ob := range ch {
				solveOne(ob, dir, timeoutS, wantModel)
			}
		}()
	}
	for _, ob := range uniq {
		ch <- ob
	}
	close(ch)
	wg.Wait()
	for first, ds := range dups {
		for _, d := range ds {
			d.Status, d.Solver, d.Seconds, d.Output, d.Model = first.Status, first.Solver, 0, first.Output, first.Model
		}
	}
}
