package main

import (
	"fmt"
	"go/types"
	"strconv"
	"strings"

	"golang.org/x/tools/go/ssa"
)

const modulePath = "github.com/tendermint/tendermint"

func inModule(fn *ssa.Function) bool {
	if fn == nil || fn.Pkg == nil {
		if fn != nil && fn.Parent() != nil {
			return inModule(fn.Parent())
		}
		return false
	}
	return strings.HasPrefix(fn.Pkg.Pkg.Path(), modulePath)
}

func (x *Exec) call(st *State, in ssa.Instruction, c *ssa.CallCommon, k Cont) {
	var args []*Value
	for _, a := range c.Args {
		args = append(args, x.get(st, a))
	}
	fnv := x.get(st, c.Value)
	x.callValue(st, in, c, fnv, args, k)
}

func resultTypes(sig *types.Signature) []types.Type {
	var ts []types.Type
	for i := 0; i < sig.Results().Len(); i++ {
		ts = append(ts, sig.Results().At(i).Type())
	}
	return ts
}

func (x *Exec) freshResults(st *State, sig *types.Signature, prefix string) []*Value {
	var res []*Value
	for i, t := range resultTypes(sig) {
		v := x.freshValue(st, t, fmt.Sprintf("%s_r%d", prefix, i))
		x.markValueAllocated(st, v)
		res = append(res, v)
	}
	return res
}

// callAssertions: `atcall` clauses of the function under verification for this call site.
func (x *Exec) callAssertions(st *State, in ssa.Instruction, c *ssa.CallCommon, args []*Value) {
	if x.fc == nil || len(x.fc.AtCall) == 0 || x.discovery > 0 || in == nil {
		return
	}
	if st.top().depth != 0 {
		// also inside closures of the function under verification (e.g. a local flush helper)
		top := st.top().fn
		if top.Parent() != x.fn {
			return
		}
	}
	name := ""
	if c.IsInvoke() {
		name = ifaceShort(c.Method, c.Value.Type())
	} else if f := c.StaticCallee(); f != nil {
		name = shortName(f)
	} else if u, ok := c.Value.(*ssa.UnOp); ok {
		// call through a function-typed struct field: named Struct.field
		if fa, ok := u.X.(*ssa.FieldAddr); ok {
			if pt, ok := fa.X.Type().Underlying().(*types.Pointer); ok {
				if n, ok := pt.Elem().(*types.Named); ok {
					if stt, ok := n.Underlying().(*types.Struct); ok {
						name = n.Obj().Name() + "." + stt.Field(fa.Field).Name()
					}
				}
			}
		}
	}
	cls := x.fc.AtCall[name]
	if len(cls) == 0 {
		// a function of another package may be named with its package: os.Rename, sort.Sort
		if f := c.StaticCallee(); f != nil && f.Pkg != nil && f.Signature.Recv() == nil {
			if q := f.Pkg.Pkg.Name() + "." + f.Name(); len(x.fc.AtCall[q]) > 0 {
				name = q
				cls = x.fc.AtCall[q]
			}
		}
	}
	if len(cls) == 0 {
		return
	}
	x.atcallSeen[name] = true
	names := cloneNames(x.params)
	for i, a := range args {
		names[fmt.Sprintf("arg%d", i)] = a
	}
	if c.IsInvoke() {
		names["recv"] = x.get(st, c.Value)
	}
	pkg := x.fn.Pkg.Pkg
	env := &Env{x: x, st: st, old: x.entry, names: names, pkg: pkg, pkgPath: pkg.Path(), fn: x.fn, atBlock: st.curBlock, atPos: in.Pos(), proving: true}
	ord := x.callSiteOrdinal(in, name)
	// reachability probe: an `atcall` obligation on a call site that no feasible path reaches is vacuous
	probe := fmt.Sprintf("cover:atcall:%s@%d", name, ord)
	if x.atcallProbes[probe] < 10 {
		x.atcallProbes[probe]++
		cov := &Obligation{Name: x.fnKey + "#" + probe, Func: x.fnKey, Kind: "cover", Src: "the call site is reachable", Goal: "false", Trace: strings.Join(st.trace, " ")}
		cov.Script = x.script(st, "false")
		x.obls = append(x.obls, cov)
	}
	for _, cl := range cls {
		if strings.HasPrefix(cl.Label, "cover_") {
			// a label ending in _at<N> restricts the probe to the N-th call site of this callee in the function
			if k := strings.LastIndex(cl.Label, "_at"); k > 0 {
				if n, err := strconv.Atoi(cl.Label[k+3:]); err == nil && n != ord {
					continue
				}
			}
			// conditional reachability (completeness probe): SOME feasible path reaches this call site with the
			// condition true. Nothing is assumed afterwards. Fails when every instance is unsatisfiable.
			if x.discovery > 0 {
				continue
			}
			g := x.evalBool(env, cl)
			pn := fmt.Sprintf("cover:atcall:%s.%s@%d", name, cl.Label, ord)
			if x.atcallProbes[pn] < 60 {
				x.atcallProbes[pn]++
				cov := &Obligation{Name: x.fnKey + "#" + pn, Func: x.fnKey, Kind: "cover", Src: cl.Src, Goal: "(not " + g + ")", Trace: strings.Join(st.trace, " ")}
				cov.Script = x.script(st, "(not "+g+")")
				x.obls = append(x.obls, cov)
			}
			continue
		}
		g := x.evalBool(env, cl)
		x.emit(st, fmt.Sprintf("atcall:%s.%s@%d", name, cl.Label, ord), "atcall", cl.Src, g)
		st.assume(g)
	}
}

func (x *Exec) callValue(st *State, in ssa.Instruction, c *ssa.CallCommon, fnv *Value, args []*Value, k Cont) {
	x.callAssertions(st, in, c, args)
	if c.IsInvoke() {
		x.invoke(st, in, c, fnv, args, k)
		return
	}
	sig := c.Signature()
	if fnv.K == KFunc && strings.HasPrefix(fnv.Fn.FnName, "builtin:") {
		x.builtin(st, in, c, strings.TrimPrefix(fnv.Fn.FnName, "builtin:"), args, k)
		return
	}
	if fnv.K == KFunc && fnv.Fn.FnName == "lib:noop" {
		// e.g. the cancel function returned by context.WithTimeout: no modelled effect
		k(st, x.freshResults(st, sig, "noop"))
		return
	}
	if fnv.K == KFunc && fnv.Fn.Fn != nil {
		callee := fnv.Fn.Fn.(*ssa.Function)
		x.callStatic(st, in, callee, fnv.Fn.Binds, args, k)
		return
	}
	// dynamic call through a function value: contract on the struct field it was loaded from?
	if fc := x.fieldFuncContract(c.Value); fc != nil {
		x.applyContract(st, in, fc, sig, nil, args, "field:"+fc.Key, k)
		return
	}
	x.note("dynamic call through function value: heap havocked: " + c.Value.String())
	x.havocAllHeap(st)
	k(st, x.freshResults(st, sig, "dyn"))
}

// fieldFuncContract: a call through a func-typed struct field (e.g. cs.decideProposal) may have a contract
// keyed "<Struct>.<field>" declared with extern.
func (x *Exec) fieldFuncContract(v ssa.Value) *FuncContract {
	u, ok := v.(*ssa.UnOp)
	if !ok {
		return nil
	}
	fa, ok := u.X.(*ssa.FieldAddr)
	if !ok {
		return nil
	}
	pt, ok := fa.X.Type().Underlying().(*types.Pointer)
	if !ok {
		return nil
	}
	n, ok := pt.Elem().(*types.Named)
	if !ok {
		return nil
	}
	stt := n.Underlying().(*types.Struct)
	key := n.Obj().Name() + "." + stt.Field(fa.Field).Name()
	return x.eng.cs.Funcs[n.Obj().Pkg().Path()+"::"+key]
}

func (x *Exec) callStatic(st *State, in ssa.Instruction, callee *ssa.Function, binds, args []*Value, k Cont) {
	sig := callee.Signature
	name := callee.String()
	// 1. library models
	if x.libModel(st, in, callee, name, args, k) {
		return
	}
	// 2. contract
	if fc := x.eng.contractOf(callee); fc != nil && !(x.fc == fc && false) {
		x.applyContract(st, in, fc, sig, nil, args, shortName(callee), k)
		return
	}
	// 3. inline closures and small functions
	if callee.Blocks != nil && (callee.Parent() != nil || len(binds) > 0 || x.eng.inlinable(callee)) && st.top().depth < 8 && !x.onStack(st, callee) && x.noLoops(callee) {
		x.inline(st, callee, binds, args, k)
		return
	}
	// 4. havoc
	if !inModule(callee) {
		x.externalCall(st, callee, name, args, k)
		return
	}
	ws := x.eng.writeSet(callee)
	x.note("call without contract (write set havocked, result unconstrained): " + name)
	x.havocSet(st, ws)
	x.havocPointerArgs(st, args, true)
	k(st, x.freshResults(st, sig, callee.Name()))
}

func (x *Exec) onStack(st *State, fn *ssa.Function) bool {
	for _, f := range st.frames {
		if f.fn == fn {
			return true
		}
	}
	return false
}

func (x *Exec) noLoops(fn *ssa.Function) bool {
	return len(x.eng.loopsOf(fn)) == 0
}

func (x *Exec) inline(st *State, callee *ssa.Function, binds, args []*Value, k Cont) {
	x.eng.touchBody(callee)
	fr := &Frame{fn: callee, regs: map[ssa.Value]*Value{}, depth: st.top().depth + 1}
	for i, p := range callee.Params {
		if i < len(args) {
			fr.regs[p] = args[i]
		}
	}
	for i, fv := range callee.FreeVars {
		if i < len(binds) {
			fr.regs[fv] = binds[i]
		}
	}
	st.frames = append(st.frames, fr)
	x.enterBlock(st, callee.Blocks[0], nil, k)
}

func (x *Exec) havocSet(st *State, ws *WriteSet) {
	if ws.All {
		x.havocAllHeap(st)
		return
	}
	for _, key := range sortedKeys(ws.Keys) {
		if s, ok := ws.Sorts[key]; ok {
			x.arrSort[key] = s
		}
		x.havocHeapArr(st, key)
	}
	for g := range ws.Ghosts {
		if gv := x.eng.cs.Ghosts[g]; gv != nil {
			st.ghost[g] = x.freshValue(st, x.eng.ghostType(gv), "ghost_"+g)
			st.written["G|"+g] = true
		}
	}
}

// havocPointerArgs: a callee may write through pointers into local cells / interior pointers it was handed.
func (x *Exec) havocPointerArgs(st *State, args []*Value, localsOnly bool) {
	for _, a := range args {
		if a.K == KPtr && a.P.Cell != nil {
			_, t := pathInfo(a.P.Root, a.P.Path)
			x.store(st, a.P, x.freshValue(st, t, "byref"))
		} else if a.K == KPtr && !localsOnly && !a.P.Nil && !a.P.Abs {
			_, t := pathInfo(a.P.Root, a.P.Path)
			if _, isStruct := t.Underlying().(*types.Struct); isStruct || isLeafType(t) || true {
				if !isOpaqueStruct(t) {
					x.store(st, a.P, x.freshValue(st, t, "byref"))
				}
			}
		} else if a.K == KSlice && !localsOnly {
			et := a.T.Underlying().(*types.Slice).Elem()
			for _, l := range leaves(et) {
				x.arrSort["E|"+typeKey(et)+"|"+l.Path] = l.Sort
				x.havocHeapArr(st, "E|"+typeKey(et)+"|"+l.Path)
			}
		}
	}
}

var purePkgs = map[string]bool{
	"bytes": true, "strings": true, "strconv": true, "math": true, "math/bits": true, "encoding/hex": true, "unicode": true,
	"unicode/utf8": true, "errors": true, "fmt": true, "time": true, "path": true, "path/filepath": true, "sort": false,
	"crypto/sha256": true, "hash/crc32": true, "encoding/base64": true, "math/big": true, "reflect": true, "runtime": true,
	"runtime/debug": true, "regexp": true, "crypto/subtle": true,
	"github.com/tendermint/tendermint/libs/log": true,
	"github.com/go-kit/kit/metrics":              true,
	"github.com/go-kit/log":                      true,
	"github.com/pkg/errors":                      true,
	"github.com/cosmos/gogoproto/proto":          true,
	"github.com/gogo/protobuf/proto":             true,
	"github.com/cosmos/gogoproto/types":          true,
	"github.com/gogo/protobuf/types":             true,
}

func pkgPathOf(fn *ssa.Function) string {
	if fn.Pkg != nil {
		return fn.Pkg.Pkg.Path()
	}
	if fn.Object() != nil && fn.Object().Pkg() != nil {
		return fn.Object().Pkg().Path()
	}
	if fn.Parent() != nil {
		return pkgPathOf(fn.Parent())
	}
	return ""
}

// externalCall models a call to a function outside the module for which there is no model or contract.
func (x *Exec) externalCall(st *State, callee *ssa.Function, name string, args []*Value, k Cont) {
	sig := callee.Signature
	pp := pkgPathOf(callee)
	if purePkgs[pp] {
		// deterministic function of its leaf arguments where possible
		var terms []string
		ok := true
		for _, a := range args {
			if a.K == KFunc {
				ok = false
				break
			}
			terms = append(terms, x.flatten(a)...)
		}
		rts := resultTypes(sig)
		if ok && len(rts) >= 1 && len(terms) <= 8 {
			var res []*Value
			for ri, rt := range rts {
				v := mkValue(rt, func(l Leaf) string {
					fn := fmt.Sprintf("ext_%s_%d_%s", smtName(name), ri, smtName(l.Path))
					if len(terms) == 0 {
						x.globalDecl(fn, fmt.Sprintf("(declare-const %s %s)", fn, l.Sort))
						return fn
					}
					x.globalDecl(fn, fmt.Sprintf("(declare-fun %s (%s) %s)", fn, strings.TrimSpace(strings.Repeat("Int ", len(terms))), l.Sort))
					return fmt.Sprintf("(%s %s)", fn, strings.Join(x.intTerms(terms, args), " "))
				})
				x.typeAssume(st, v)
				res = append(res, v)
			}
			k(st, res)
			return
		}
		k(st, x.freshResults(st, sig, callee.Name()))
		return
	}
	x.note("external call (arguments' pointees havocked): " + name)
	x.havocPointerArgs(st, args, false)
	k(st, x.freshResults(st, sig, callee.Name()))
}

// intTerms converts Bool-sorted leaf terms into Ints for uninterpreted application.
func (x *Exec) intTerms(terms []string, args []*Value) []string {
	sorts := []string{}
	for _, a := range args {
		for _, l := range leaves(a.T) {
			sorts = append(sorts, l.Sort)
		}
	}
	out := make([]string, len(terms))
	for i, t := range terms {
		if i < len(sorts) && sorts[i] == "Bool" {
			out[i] = fmt.Sprintf("(ite %s 1 0)", t)
		} else {
			out[i] = t
		}
	}
	return out
}

func shortName(fn *ssa.Function) string {
	if fn.Signature.Recv() != nil {
		t := fn.Signature.Recv().Type()
		if p, ok := t.(*types.Pointer); ok {
			t = p.Elem()
		}
		if n, ok := t.(*types.Named); ok {
			return n.Obj().Name() + "." + fn.Name()
		}
	}
	return fn.Name()
}

// invoke handles interface method calls.
func (x *Exec) invoke(st *State, in ssa.Instruction, c *ssa.CallCommon, recv *Value, args []*Value, k Cont) {
	m := c.Method
	sig := m.Type().(*types.Signature)
	full := m.FullName() // (pkg.Iface).Method
	if x.ifaceModel(st, in, c, full, recv, args, k) {
		return
	}
	if fc := x.eng.contractOfMethod(m, c.Value.Type()); fc != nil {
		x.applyContract(st, in, fc, sig, recv, args, ifaceShort(m, c.Value.Type()), k)
		return
	}
	pp := ""
	if m.Pkg() != nil {
		pp = m.Pkg().Path()
	}
	if purePkgs[pp] || pp == "" || x.eng.pureIface(m, c.Value.Type()) {
		// pure, deterministic in (receiver, args)
		terms := x.flatten(recv)
		okA := true
		for _, a := range args {
			if a.K == KFunc {
				okA = false
			}
			terms = append(terms, x.flatten(a)...)
		}
		if okA && len(terms) <= 8 && sig.Results().Len() > 0 {
			var res []*Value
			allArgs := append([]*Value{recv}, args...)
			for ri, rt := range resultTypes(sig) {
				v := mkValue(rt, func(l Leaf) string {
					fn := fmt.Sprintf("im_%s_%d_%s", smtName(full), ri, smtName(l.Path))
					x.globalDecl(fn, fmt.Sprintf("(declare-fun %s (%s) %s)", fn, strings.TrimSpace(strings.Repeat("Int ", len(terms))), l.Sort))
					return fmt.Sprintf("(%s %s)", fn, strings.Join(x.intTerms(terms, allArgs), " "))
				})
				x.typeAssume(st, v)
				res = append(res, v)
			}
			k(st, res)
			return
		}
		k(st, x.freshResults(st, sig, m.Name()))
		return
	}
	x.note("interface call without contract (heap havocked): " + full)
	x.havocAllHeap(st)
	x.havocPointerArgs(st, args, true)
	k(st, x.freshResults(st, sig, m.Name()))
}

func ifaceShort(m *types.Func, recvT types.Type) string {
	if n, ok := recvT.(*types.Named); ok {
		return n.Obj().Name() + "." + m.Name()
	}
	return m.Name()
}

// ---------- contracts at call sites ----------

// applyContract: assert pre, havoc frame, assume post.
func (x *Exec) applyContract(st *State, in ssa.Instruction, fc *FuncContract, sig *types.Signature, recv *Value, args []*Value, calleeName string, k Cont) {
	names := map[string]*Value{}
	ai := 0
	if sig.Recv() != nil {
		rn := sig.Recv().Name()
		if rn == "" || rn == "_" {
			rn = "self"
		}
		if recv != nil {
			names[rn] = recv
			names["self"] = recv
		} else if len(args) > 0 {
			names[rn] = args[0]
			names["self"] = args[0]
			ai = 1
		}
	} else if recv != nil {
		names["self"] = recv
	}
	for i := 0; i < sig.Params().Len(); i++ {
		pn := sig.Params().At(i).Name()
		if pn == "" || pn == "_" {
			pn = fmt.Sprintf("arg%d", i)
		}
		if ai+i < len(args) {
			names[pn] = args[ai+i]
			names[fmt.Sprintf("arg%d", i)] = args[ai+i]
		}
	}
	if fc.Trusted {
		x.assumedObjInv["trusted contract applied at a call (its body is NOT verified by this check): "+pkgShort(fc.PkgPath)+"."+fc.Key] = true
	} else if fc.Extern {
		x.assumedObjInv["assumed contract of an external / interface / function-valued callee applied at a call: "+pkgShort(fc.PkgPath)+"."+fc.Key] = true
	}
	pkg := x.eng.typesPkg(fc.PkgPath)
	ord := x.callSiteOrdinal(in, calleeName)
	env := &Env{x: x, st: st, old: st, names: names, pkg: pkg, pkgPath: fc.PkgPath}
	for _, r := range fc.Requires {
		g := x.evalBool(env, r)
		if r.ObjInv && x.fn.Pkg != nil && x.fn.Pkg.Pkg.Path() != fc.PkgPath {
			// object invariant of another package's type: holds whenever control is outside that package
			x.assumedObjInv[calleeName+"."+r.Label] = true
		} else {
			x.emit(st, fmt.Sprintf("pre:%s.%s@%d", calleeName, r.Label, ord), "pre", r.Src, g)
		}
		st.assume(g)
	}
	pre := st.snapshotView()
	// the callee may have allocated: the set of existing objects after the call is some superset of the one before
	if !fc.Pure {
		x.growAlloc(st)
	}
	// results are created before the frame so that assigns clauses may name locations of the result
	res := x.freshResults(st, sig, smtName(calleeName))
	bindResults(env.names, sig, res)
	// frame
	switch {
	case fc.AssignsNone || (fc.Pure && len(fc.Assigns) == 0):
	case len(fc.Assigns) > 0:
		for _, a := range fc.Assigns {
			x.havocLocation(env, a)
		}
	case fc.Extern:
		// extern contracts without assigns clause: no modelled state changes
	default:
		if callee := x.eng.funcOfContract(fc); callee != nil {
			ws := x.eng.writeSet(callee)
			if ws.All {
				x.note("contract of " + calleeName + " has no assigns clause and its computed write set is unbounded: whole heap havocked")
			}
			x.havocSet(st, ws)
		} else {
			x.havocAllHeap(st)
		}
	}
	x.havocPointerArgs(st, args, true)
	penv := &Env{x: x, st: st, old: pre, names: cloneNames(names), pkg: pkg, pkgPath: fc.PkgPath, dropGuards: true}
	bindResults(penv.names, sig, res)
	if fc.Pure {
		// result is a deterministic function of the arguments' leaves
		var terms []string
		if recv != nil {
			terms = append(terms, x.flatten(recv)...)
		}
		all := []*Value{}
		if recv != nil {
			all = append(all, recv)
		}
		for _, a := range args {
			terms = append(terms, x.flatten(a)...)
			all = append(all, a)
		}
		for ri, r := range res {
			rl := x.flatten(r)
			for li, l := range leaves(r.T) {
				fn := fmt.Sprintf("pure_%s_%d_%d", smtName(fc.PkgPath+"."+fc.Key), ri, li)
				if len(terms) == 0 {
					x.globalDecl(fn, fmt.Sprintf("(declare-const %s %s)", fn, l.Sort))
					st.assume(fmt.Sprintf("(= %s %s)", rl[li], fn))
				} else {
					x.globalDecl(fn, fmt.Sprintf("(declare-fun %s (%s) %s)", fn, strings.TrimSpace(strings.Repeat("Int ", len(terms))), l.Sort))
					st.assume(fmt.Sprintf("(= %s (%s %s))", rl[li], fn, strings.Join(x.intTerms(terms, all), " ")))
				}
			}
		}
	}
	for _, e := range fc.Ensures {
		// a postcondition that cannot be evaluated at the call site (it mentions a local of the callee) is private to
		// the callee's body: proved there, not assumed here. Anything else that fails to evaluate stays a bind error.
		g, ok := x.evalBoolAtCall(penv, e)
		if !ok {
			continue
		}
		st.assume(g)
	}
	// definitional clauses (closure rules of inductively defined ghost predicates)
	for _, gcl := range fc.Grants {
		st.assume(x.evalBool(penv, gcl))
	}
	// ghost updates defined by the contract (performed at the callee's return)
	for _, gs := range fc.Sets {
		gv := x.eng.cs.Ghosts[gs.Ghost]
		if gv == nil {
			x.bindErrors = append(x.bindErrors, "sets: unknown ghost "+gs.Ghost)
			continue
		}
		old := st.ghost[gs.Ghost]
		if old == nil {
			old = x.freshValue(st, x.eng.ghostType(gv), "ghost0_"+gs.Ghost)
		}
		cond := x.evalBool(penv, gs.Cond)
		var val *Value
		func() {
			defer func() {
				if r := recover(); r != nil {
					if ee, ok := r.(evalError); ok {
						x.bindErrors = append(x.bindErrors, "sets "+gs.Ghost+": "+ee.msg)
						return
					}
					panic(r)
				}
			}()
			val = penv.eval(gs.Expr.Expr)
		}()
		if val == nil {
			continue
		}
		ts := x.flatten(val)
		nv := x.freshValue(st, x.eng.ghostType(gv), "ghost_"+gs.Ghost)
		st.assume(fmt.Sprintf("(= %s (ite %s %s %s))", nv.Term, cond, ts[0], old.Term))
		st.ghost[gs.Ghost] = nv
		st.written["G|"+gs.Ghost] = true
	}
	k(st, res)
}

func cloneNames(m map[string]*Value) map[string]*Value {
	n := make(map[string]*Value, len(m)+4)
	for k, v := range m {
		n[k] = v
	}
	return n
}

func bindResults(names map[string]*Value, sig *types.Signature, res []*Value) {
	for i, r := range res {
		names[fmt.Sprintf("result%d", i)] = r
		if rn := sig.Results().At(i).Name(); rn != "" && rn != "_" {
			names[rn] = r
		}
	}
	if len(res) >= 1 {
		names["result"] = res[0]
	}
}

// snapshotView copies what old() needs.
func (st *State) snapshotView() *State {
	n := &State{epoch: st.epoch, epochChain: st.epochChain, allocT: st.allocT, locks: st.locks}
	n.heap = make(map[string]string, len(st.heap))
	for k, v := range st.heap {
		n.heap[k] = v
	}
	n.ghost = make(map[string]*Value, len(st.ghost))
	for k, v := range st.ghost {
		n.ghost[k] = v
	}
	n.cells = st.cells
	n.promo = st.promo
	n.frames = st.frames
	n.written = map[string]bool{}
	n.wcells = map[*Cell]bool{}
	n.boxes = st.boxes
	n.iters = st.iters
	n.cut = st.cut
	return n
}

func (x *Exec) callSiteOrdinal(in ssa.Instruction, callee string) int {
	if in == nil {
		return 0
	}
	fn := in.Parent()
	key := fn.String() + "|" + callee
	m := x.eng.callOrd[key]
	if m == nil {
		m = map[ssa.Instruction]int{}
		n := 0
		for _, b := range fn.Blocks {
			for _, ins := range b.Instrs {
				var cc *ssa.CallCommon
				switch c := ins.(type) {
				case *ssa.Call:
					cc = &c.Call
				case *ssa.Defer:
					cc = &c.Call
				case *ssa.Go:
					cc = &c.Call
				}
				if cc == nil {
					continue
				}
				nm := ""
				if cc.IsInvoke() {
					nm = ifaceShort(cc.Method, cc.Value.Type())
				} else if f := cc.StaticCallee(); f != nil {
					nm = shortName(f)
				} else if u, ok := cc.Value.(*ssa.UnOp); ok {
					if fa, ok := u.X.(*ssa.FieldAddr); ok {
						if pt, ok := fa.X.Type().Underlying().(*types.Pointer); ok {
							if nn, ok := pt.Elem().(*types.Named); ok {
								nm = "field:" + nn.Obj().Name() + "." + nn.Underlying().(*types.Struct).Field(fa.Field).Name()
							}
						}
					}
				}
				if nm == callee {
					n++
					m[ins] = n
				}
			}
		}
		x.eng.callOrd[key] = m
	}
	return m[in]
}

// ---------- builtins ----------

func (x *Exec) builtin(st *State, in ssa.Instruction, c *ssa.CallCommon, name string, args []*Value, k Cont) {
	var rt types.Type
	if v, ok := in.(ssa.Value); ok {
		rt = v.Type()
	}
	switch name {
	case "len":
		a := args[0]
		switch a.K {
		case KSlice:
			k(st, []*Value{leaf(rt, a.Fs[2].Term)})
		case KLeaf:
			if isAbstractBytes(a.T) {
				k(st, []*Value{leaf(rt, fmt.Sprintf("(blen %s)", a.Term))})
			} else if _, ok := a.T.Underlying().(*types.Map); ok {
				dom := x.mapDomTerm(st, a)
				t := fmt.Sprintf("(maplen %s %s)", dom, a.Term)
				st.assume(fmt.Sprintf("(>= %s 0)", t))
				// len(m) == 0 exactly when m has no key
				wit := x.fresh(st, "mapwit", "Int")
				st.assume(fmt.Sprintf("(=> (> %s 0) (select %s %s))", t, dom, wit))
				st.assume(fmt.Sprintf("(=> (= %s 0) (forall ((qk Int)) (! (not (select %s qk)) :pattern ((select %s qk)))))", t, dom, dom))
				k(st, []*Value{leaf(rt, t)})
			} else {
				v := x.fresh(st, "len", "Int")
				st.assume(fmt.Sprintf("(>= %s 0)", v))
				k(st, []*Value{leaf(rt, v)})
			}
		case KArr:
			k(st, []*Value{leaf(rt, fmt.Sprintf("%d", len(a.Fs)))})
		default:
			v := x.fresh(st, "len", "Int")
			st.assume(fmt.Sprintf("(>= %s 0)", v))
			k(st, []*Value{leaf(rt, v)})
		}
	case "cap":
		v := x.fresh(st, "cap", "Int")
		if args[0].K == KSlice {
			st.assume(fmt.Sprintf("(>= %s %s)", v, args[0].Fs[2].Term))
		} else {
			st.assume(fmt.Sprintf("(>= %s 0)", v))
		}
		k(st, []*Value{leaf(rt, v)})
	case "append":
		k(st, []*Value{x.appendOp(st, rt, args[0], args[1])})
	case "copy":
		d, s := args[0], args[1]
		n := x.fresh(st, "copied", "Int")
		if d.K == KSlice && s.K == KSlice {
			st.assume(fmt.Sprintf("(= %s (ite (< %s %s) %s %s))", n, d.Fs[2].Term, s.Fs[2].Term, d.Fs[2].Term, s.Fs[2].Term))
			et := d.T.Underlying().(*types.Slice).Elem()
			for _, l := range leaves(et) {
				key := "E|" + typeKey(et) + "|" + l.Path
				oldA := x.heapArr(st, key, l.Sort)
				x.havocHeapArr(st, key)
				newA := st.heap[key]
				// frame + copy
				st.assume(fmt.Sprintf("(forall ((qa Int)) (=> (not (= qa %s)) (= (select %s qa) (select %s qa))))", d.Fs[0].Term, newA, oldA))
				st.assume(fmt.Sprintf("(forall ((qi Int)) (= (select (select %s %s) qi) (ite (and (<= %s qi) (< qi (+ %s %s))) (select (select %s %s) (+ %s (- qi %s))) (select (select %s %s) qi))))",
					newA, d.Fs[0].Term, d.Fs[1].Term, d.Fs[1].Term, n, oldA, s.Fs[0].Term, s.Fs[1].Term, d.Fs[1].Term, oldA, d.Fs[0].Term))
			}
		} else {
			st.assume(fmt.Sprintf("(>= %s 0)", n))
			if d.K == KLeaf && isAbstractBytes(d.T) {
				x.note("copy into abstract byte string: contents not tracked")
			}
		}
		k(st, []*Value{leaf(rt, n)})
	case "delete":
		x.mapDelete(st, args[0], args[1])
		k(st, nil)
	case "panic":
		x.pathDone()
	case "recover":
		k(st, []*Value{x.zeroValue(st, rt)})
	case "print", "println":
		k(st, nil)
	case "close":
		k(st, nil)
	case "min", "max":
		if len(args) == 2 && args[0].K == KLeaf {
			op := "<"
			if name == "max" {
				op = ">"
			}
			k(st, []*Value{leaf(rt, fmt.Sprintf("(ite (%s %s %s) %s %s)", op, args[0].Term, args[1].Term, args[0].Term, args[1].Term))})
			return
		}
		k(st, []*Value{x.freshValue(st, rt, name)})
	case "ssa:wrapnilchk":
		k(st, []*Value{args[0]})
	case "ssa:deferstack":
		k(st, []*Value{leaf(rt, "0")})
	default:
		x.note("builtin not modelled: " + name)
		if rt != nil {
			k(st, []*Value{x.freshValue(st, rt, name)})
		} else {
			k(st, nil)
		}
	}
}

func (x *Exec) mapDomTerm(st *State, m *Value) string {
	mt := m.T.Underlying().(*types.Map)
	dk, _ := mapKeys(mt)
	return fmt.Sprintf("(select %s %s)", x.heapArr(st, dk, "Bool"), m.Term)
}

func (x *Exec) appendOp(st *State, rt types.Type, s, e *Value) *Value {
	if s.K == KLeaf && isAbstractBytes(s.T) {
		t := fmt.Sprintf("(bconcat %s %s)", s.Term, e.Term)
		st.assume(fmt.Sprintf("(= (blen %s) (+ (blen %s) (blen %s)))", t, s.Term, e.Term))
		st.assume(fmt.Sprintf("(=> (> (blen %s) 0) (= (bat %s 0) (bat %s 0)))", s.Term, t, s.Term))
		st.assume(fmt.Sprintf("(=> (= (blen %s) 0) (= %s %s))", e.Term, t, s.Term))
		st.assume(fmt.Sprintf("(=> (= (blen %s) 0) (= %s %s))", s.Term, t, e.Term))
		return leaf(rt, t)
	}
	if s.K != KSlice || e.K != KSlice {
		x.note("append: unsupported operands")
		return x.freshValue(st, rt, "append")
	}
	et := s.T.Underlying().(*types.Slice).Elem()
	arr := x.freshRef(st, "apparr")
	n1, n2 := s.Fs[2].Term, e.Fs[2].Term
	newLen := fmt.Sprintf("(+ %s %s)", n1, n2)
	if n2 == "0" {
		newLen = n1
	}
	k2, constN2 := constInt(n2)
	for _, l := range leaves(et) {
		key := "E|" + typeKey(et) + "|" + l.Path
		a := x.heapArr(st, key, l.Sort)
		if s.Fs[1].Term == "0" && constN2 && k2 <= 4 {
			// contents = old contents with k2 stores
			c := fmt.Sprintf("(select %s %s)", a, s.Fs[0].Term)
			for j := 0; j < k2; j++ {
				idx := fmt.Sprintf("(+ %s %d)", n1, j)
				src := fmt.Sprintf("(+ %s %d)", e.Fs[1].Term, j)
				if e.Fs[1].Term == "0" {
					src = fmt.Sprintf("%d", j)
				}
				c = fmt.Sprintf("(store %s %s (select (select %s %s) %s))", c, idx, a, e.Fs[0].Term, src)
			}
			x.setHeapArr(st, key, l.Sort, fmt.Sprintf("(store %s %s %s)", a, arr, c))
			continue
		}
		na := x.fresh(st, "appc", fmt.Sprintf("(Array Int %s)", l.Sort))
		st.assume(fmt.Sprintf("(forall ((qi Int)) (! (=> (and (<= 0 qi) (< qi %s)) (= (select %s qi) (select (select %s %s) %s))) :pattern ((select %s qi))))", n1, na, a, s.Fs[0].Term, sidxTerm(s.Fs[1].Term, "qi"), na))
		if k2c, isC := constInt(n2); isC && k2c <= 4 {
			for j := 0; j < k2c; j++ {
				st.assume(fmt.Sprintf("(= (select %s (+ %s %d)) (select (select %s %s) %s))", na, n1, j, a, e.Fs[0].Term, sidxTerm(e.Fs[1].Term, fmt.Sprint(j))))
			}
		} else {
			st.assume(fmt.Sprintf("(forall ((qi Int)) (=> (and (<= 0 qi) (< qi %s)) (= (select %s (+ %s qi)) (select (select %s %s) %s))))", n2, na, n1, a, e.Fs[0].Term, sidxTerm(e.Fs[1].Term, "qi")))
		}
		x.setHeapArr(st, key, l.Sort, fmt.Sprintf("(store %s %s %s)", a, arr, na))
	}
	return &Value{K: KSlice, T: rt, Fs: []*Value{leaf(types.Typ[types.Int], arr), leaf(types.Typ[types.Int], "0"), leaf(types.Typ[types.Int], newLen)}}
}

// sidxTerm: element index off+i in the trigger-friendly form used everywhere for slice elements.
func sidxTerm(off, i string) string {
	if off == "0" {
		return i
	}
	return fmt.Sprintf("(sidx %s %s)", off, i)
}
