package main

import (
	"fmt"
	"go/ast"
	"go/parser"
	"go/token"
	"go/types"
	"os"
	"path/filepath"
	"sort"
	"strings"

	"golang.org/x/tools/go/packages"
	"golang.org/x/tools/go/ssa"
	"golang.org/x/tools/go/ssa/ssautil"
)

// Engine holds the loaded program and contracts.
type Engine struct {
	repo          string
	prog          *ssa.Program
	pkgs          []*packages.Package
	spkgs         map[string]*ssa.Package
	tpkgs         map[string]*types.Package
	errGlobals    map[*ssa.Global]bool
	cs            *Contracts
	strIDs        map[string]string
	tagIDs        map[string]int
	callOrd       map[string]map[ssa.Instruction]int
	wsMemo        map[*ssa.Function]*WriteSet
	wsBusy        map[*ssa.Function]bool
	loopMemo      map[*ssa.Function]map[*ssa.BasicBlock]int
	fcFunc        map[*FuncContract]*ssa.Function
	funcFC        map[*ssa.Function]*FuncContract
	methFC        map[string]*FuncContract
	loadErrs      []string
	contractFiles []string
	macroSpecs    bool
	fieldIDs      map[string]int
	impureBusy    map[*ssa.Function]bool
	bodyFiles     map[string]bool // repo-relative files holding a function body this run executed, inlined or analysed for its write set
}

type WriteSet struct {
	All    bool
	Keys   map[string]bool
	Sorts  map[string]string
	Ghosts map[string]bool
}

func parseTypeExpr(src string) (ast.Expr, error) { return parser.ParseExpr(src) }

func LoadEngine(repo string, patterns []string, overlay map[string][]byte) (*Engine, error) {
	cfg := &packages.Config{Mode: packages.LoadAllSyntax, Dir: repo, BuildFlags: []string{"-tags=verif"}, Overlay: overlay,
		Env: append(os.Environ(), "GOFLAGS=-mod=mod", "GOPROXY=off", "GOSUMDB=off", "GOTOOLCHAIN=local")}
	pkgs, err := packages.Load(cfg, patterns...)
	if err != nil {
		return nil, err
	}
	e := &Engine{repo: repo, pkgs: pkgs, spkgs: map[string]*ssa.Package{}, tpkgs: map[string]*types.Package{}, cs: NewContracts(),
		strIDs: map[string]string{}, tagIDs: map[string]int{}, callOrd: map[string]map[ssa.Instruction]int{}, wsMemo: map[*ssa.Function]*WriteSet{},
		wsBusy: map[*ssa.Function]bool{}, loopMemo: map[*ssa.Function]map[*ssa.BasicBlock]int{}, fcFunc: map[*FuncContract]*ssa.Function{},
		funcFC: map[*ssa.Function]*FuncContract{}, methFC: map[string]*FuncContract{}, fieldIDs: map[string]int{}, impureBusy: map[*ssa.Function]bool{}}
	packages.Visit(pkgs, nil, func(p *packages.Package) {
		for _, er := range p.Errors {
			if strings.HasPrefix(p.PkgPath, modulePath) {
				e.loadErrs = append(e.loadErrs, er.Error())
			}
		}
		if p.Types != nil {
			e.tpkgs[p.PkgPath] = p.Types
		}
	})
	if len(e.loadErrs) > 0 {
		return e, fmt.Errorf("build errors: %s", strings.Join(e.loadErrs, "; "))
	}
	prog, _ := ssautil.AllPackages(pkgs, ssa.NaiveForm|ssa.GlobalDebug)
	e.prog = prog
	for _, sp := range prog.AllPackages() {
		e.spkgs[sp.Pkg.Path()] = sp
	}
	// build module packages eagerly (others on demand)
	for path, sp := range e.spkgs {
		if strings.HasPrefix(path, modulePath) {
			sp.Build()
		}
	}
	// contract files: every zz_verif_contracts*.go in loaded module packages
	packages.Visit(pkgs, nil, func(p *packages.Package) {
		if !strings.HasPrefix(p.PkgPath, modulePath) {
			return
		}
		for _, f := range p.GoFiles {
			if strings.HasPrefix(filepath.Base(f), "zz_verif_contracts") {
				var err error
				if ov, ok := overlay[f]; ok {
					err = e.cs.LoadContractText(string(ov), f, p.PkgPath)
				} else {
					err = e.cs.LoadContractFile(f, p.PkgPath)
				}
				if err != nil {
					e.loadErrs = append(e.loadErrs, err.Error())
				}
				e.contractFiles = append(e.contractFiles, f)
			}
		}
	})
	if len(e.loadErrs) > 0 {
		return e, fmt.Errorf("contract errors: %s", strings.Join(e.loadErrs, "; "))
	}
	e.macroSpecs = os.Getenv("GOVC_MACRO") != ""
	e.bindContracts()
	if len(e.loadErrs) > 0 {
		return e, fmt.Errorf("contract errors: %s", strings.Join(e.loadErrs, "; "))
	}
	return e, nil
}

func (e *Engine) typesPkg(path string) *types.Package { return e.tpkgs[path] }

func (e *Engine) ghostType(g *GhostVar) types.Type {
	switch g.Type {
	case "bool":
		return types.Typ[types.Bool]
	case "int":
		return types.Typ[types.Int]
	case "int64":
		return types.Typ[types.Int64]
	}
	return types.Typ[types.Int]
}

// findFunc resolves a contract key ("Type.Method" or "func") in a package.
func (e *Engine) findFunc(pkgPath, key string) *ssa.Function {
	sp := e.spkgs[pkgPath]
	if sp == nil {
		return nil
	}
	parts := strings.Split(key, ".")
	if len(parts) == 1 {
		if f, ok := sp.Members[key].(*ssa.Function); ok {
			return f
		}
		return nil
	}
	tn, ok := sp.Members[parts[0]].(*ssa.Type)
	if !ok {
		return nil
	}
	for _, t := range []types.Type{tn.Type(), types.NewPointer(tn.Type())} {
		ms := e.prog.MethodSets.MethodSet(t)
		for i := 0; i < ms.Len(); i++ {
			sel := ms.At(i)
			if sel.Obj().Name() == parts[1] {
				fn := e.prog.MethodValue(sel)
				if fn != nil && fn.Synthetic == "" {
					return fn
				}
				if fn != nil {
					// wrapper for value-receiver method promoted to pointer: find declared one
					if decl := e.prog.FuncValue(sel.Obj().(*types.Func)); decl != nil {
						return decl
					}
				}
			}
		}
	}
	return nil
}

func (e *Engine) bindContracts() {
	for _, fc := range e.cs.Funcs {
		if fc.Extern {
			// key: [alias.]Iface.Method or Struct.field
			parts := strings.Split(fc.Key, ".")
			if len(parts) == 2 {
				// alias.Func: a package-level function of another package
				pp := ""
				if m := e.cs.Imports[fc.PkgPath]; m != nil {
					pp = m[parts[0]]
				}
				if pp != "" {
					e.regExtern(pp+"::"+parts[1], fc)
					continue
				}
			}
			if len(parts) == 3 {
				pp := ""
				if m := e.cs.Imports[fc.PkgPath]; m != nil {
					pp = m[parts[0]]
				}
				if pp == "" {
					if tp := e.tpkgs[fc.PkgPath]; tp != nil {
						for _, imp := range tp.Imports() {
							if imp.Name() == parts[0] {
								pp = imp.Path()
							}
						}
					}
				}
				if pp == "" {
					e.loadErrs = append(e.loadErrs, "extern "+fc.Key+": unknown package alias")
					continue
				}
				e.regExtern(pp+"::"+parts[1]+"."+parts[2], fc)
				continue
			}
			e.regExtern(fc.PkgPath+"::"+fc.Key, fc)
			continue
		}
		fn := e.findFunc(fc.PkgPath, fc.Key)
		if fn != nil {
			e.fcFunc[fc] = fn
			e.funcFC[fn] = fc
		}
	}
}

func (e *Engine) contractOf(fn *ssa.Function) *FuncContract {
	if fc, ok := e.funcFC[fn]; ok {
		return fc
	}
	// extern contracts may also be given for concrete functions in other packages: key "alias.Type.Method"
	if fn.Object() != nil && fn.Object().Pkg() != nil {
		full := fn.Object().Pkg().Path() + "::" + shortName(fn)
		if fc, ok := e.methFC[full]; ok {
			return fc
		}
	}
	return nil
}

func (e *Engine) funcOfContract(fc *FuncContract) *ssa.Function { return e.fcFunc[fc] }

// contractOfMethod: extern contract for an interface method; keyed by the package that declares the interface type.
func (e *Engine) contractOfMethod(m *types.Func, recvT types.Type) *FuncContract {
	if os.Getenv("GOVC_DEBUG") != "" {
		fmt.Fprintf(os.Stderr, "contractOfMethod %s recv=%s keys=%d\n", m.FullName(), recvT.String(), len(e.methFC))
		for k := range e.methFC {
			fmt.Fprintln(os.Stderr, "   ", k)
		}
	}
	if n, ok := recvT.(*types.Named); ok && n.Obj().Pkg() != nil {
		if fc, ok := e.methFC[n.Obj().Pkg().Path()+"::"+n.Obj().Name()+"."+m.Name()]; ok {
			return fc
		}
	}
	// embedded interface: method declared in another interface type
	if m.Pkg() != nil {
		if sig, ok := m.Type().(*types.Signature); ok && sig.Recv() != nil {
			if n, ok := sig.Recv().Type().(*types.Named); ok {
				if fc, ok := e.methFC[n.Obj().Pkg().Path()+"::"+n.Obj().Name()+"."+m.Name()]; ok {
					return fc
				}
			}
		}
	}
	return nil
}

func (e *Engine) pureIface(m *types.Func, recvT types.Type) bool {
	if n, ok := recvT.(*types.Named); ok && n.Obj().Pkg() != nil {
		switch n.Obj().Pkg().Path() + "." + n.Obj().Name() {
		case modulePath + "/crypto.PubKey", modulePath + "/crypto.PrivKey", modulePath + "/libs/log.Logger",
			modulePath + "/types.Evidence", modulePath + "/libs/pubsub.Query":
			return true
		}
		if strings.HasPrefix(n.Obj().Pkg().Path(), "github.com/go-kit/kit/metrics") {
			return true
		}
	}
	return false
}

func (e *Engine) loopsOf(fn *ssa.Function) map[*ssa.BasicBlock]int {
	if m, ok := e.loopMemo[fn]; ok {
		return m
	}
	x := &Exec{}
	m, _ := x.analyzeLoops(fn)
	e.loopMemo[fn] = m
	return m
}

func (e *Engine) inlinable(fn *ssa.Function) bool {
	if fn.Blocks == nil {
		return false
	}
	key := ""
	if fn.Pkg != nil {
		key = fn.Pkg.Pkg.Path() + "::" + shortName(fn)
	}
	if e.cs.InlineKeys[key] {
		return true
	}
	if !inModule(fn) {
		return false
	}
	n := 0
	for _, b := range fn.Blocks {
		n += len(b.Instrs)
	}
	return n <= 400 && len(fn.Blocks) <= 48
}

// ---------- static write sets ----------

// touchBody records that the body of fn was read by this run (symbolically executed, inlined, or analysed for its
// write set): a change to that body can change a verdict; a change to any other body cannot.
func (e *Engine) touchBody(fn *ssa.Function) {
	if fn == nil || e.prog == nil {
		return
	}
	if e.bodyFiles == nil {
		e.bodyFiles = map[string]bool{}
	}
	f := e.prog.Fset.Position(fn.Pos()).Filename
	if f == "" {
		return
	}
	if rel, err := filepath.Rel(e.repo, f); err == nil && !strings.HasPrefix(rel, "..") {
		e.bodyFiles[rel] = true
	}
}

func (e *Engine) writeSet(fn *ssa.Function) *WriteSet {
	if ws, ok := e.wsMemo[fn]; ok {
		return ws
	}
	e.touchBody(fn)
	if e.wsBusy[fn] {
		return &WriteSet{Keys: map[string]bool{}, Sorts: map[string]string{}, Ghosts: map[string]bool{}}
	}
	e.wsBusy[fn] = true
	ws := &WriteSet{Keys: map[string]bool{}, Sorts: map[string]string{}, Ghosts: map[string]bool{}}
	if fn.Blocks == nil {
		if !purePkgs[pkgPathOf(fn)] {
			ws.All = true
		}
	}
	addType := func(kind string, root types.Type, prefix string, vt types.Type) {
		for _, l := range leaves(vt) {
			k := kind + typeKey(root) + "|" + joinPath(prefix, l.Path)
			ws.Keys[k] = true
			ws.Sorts[k] = l.Sort
		}
	}
	merge := func(o *WriteSet) {
		if o.All {
			ws.All = true
		}
		for k := range o.Keys {
			ws.Keys[k] = true
			ws.Sorts[k] = o.Sorts[k]
		}
		for g := range o.Ghosts {
			ws.Ghosts[g] = true
		}
	}
	for _, b := range fn.Blocks {
		for _, ins := range b.Instrs {
			switch in := ins.(type) {
			case *ssa.Store:
				kind, root, prefix, ok := staticLoc(in.Addr)
				if !ok {
					ws.All = true
					continue
				}
				if kind == "" {
					continue // local cell
				}
				addType(kind, root, prefix, in.Val.Type())
			case *ssa.MapUpdate:
				mt := in.Map.Type().Underlying().(*types.Map)
				dk, vk := mapKeys(mt)
				ws.Keys[dk] = true
				ws.Sorts[dk] = "Bool"
				for _, l := range leaves(mt.Elem()) {
					ws.Keys[vk+"|"+l.Path] = true
					ws.Sorts[vk+"|"+l.Path] = l.Sort
				}
			case *ssa.Call, *ssa.Defer, *ssa.Go:
				var cc *ssa.CallCommon
				switch c := in.(type) {
				case *ssa.Call:
					cc = &c.Call
				case *ssa.Defer:
					cc = &c.Call
				case *ssa.Go:
					cc = &c.Call
				}
				e.callWrites(ws, cc, merge, addType)
			}
		}
	}
	// closures defined inside
	for _, af := range fn.AnonFuncs {
		merge(e.writeSet(af))
	}
	e.wsBusy[fn] = false
	e.wsMemo[fn] = ws
	return ws
}

func (e *Engine) callWrites(ws *WriteSet, cc *ssa.CallCommon, merge func(*WriteSet), addType func(string, types.Type, string, types.Type)) {
	if cc.IsInvoke() {
		if fc := e.contractOfMethod(cc.Method, cc.Value.Type()); fc != nil {
			e.contractWrites(ws, fc)
			return
		}
		pp := ""
		if cc.Method.Pkg() != nil {
			pp = cc.Method.Pkg().Path()
		}
		if pp == dbPkg {
			// key-value store model: only the modelled database arrays change
			for k, s := range map[string]string{"MD|dbm": "Bool", "MV|dbm|val": "Int", "MV|dbm|cnt": "Int", "F|dbm|$writes": "Int",
				"MV|dbmbatch|op": "Int", "MV|dbmbatch|val": "Int", "F|dbmbatch|db": "Int"} {
				ws.Keys[k] = true
				ws.Sorts[k] = s
			}
			return
		}
		if purePkgs[pp] || pp == "" || e.pureIface(cc.Method, cc.Value.Type()) {
			return
		}
		ws.All = true
		return
	}
	if b, ok := cc.Value.(*ssa.Builtin); ok {
		switch b.Name() {
		case "append":
			if st, ok := cc.Args[0].Type().Underlying().(*types.Slice); ok && !isAbstractBytes(cc.Args[0].Type()) {
				addType("E|", st.Elem(), "", st.Elem())
			}
		case "copy":
			if st, ok := cc.Args[0].Type().Underlying().(*types.Slice); ok && !isAbstractBytes(cc.Args[0].Type()) {
				addType("E|", st.Elem(), "", st.Elem())
			}
		case "delete":
			mt := cc.Args[0].Type().Underlying().(*types.Map)
			dk, _ := mapKeys(mt)
			ws.Keys[dk] = true
			ws.Sorts[dk] = "Bool"
		}
		return
	}
	callee := cc.StaticCallee()
	if callee == nil {
		if mc, ok := cc.Value.(*ssa.MakeClosure); ok {
			merge(e.writeSet(mc.Fn.(*ssa.Function)))
			return
		}
		ws.All = true
		return
	}
	if fc := e.contractOf(callee); fc != nil && (fc.AssignsNone || len(fc.Assigns) > 0) {
		e.contractWrites(ws, fc)
		return
	}
	name := callee.String()
	if strings.HasPrefix(name, "(*sync.Map).") {
		for k, s := range map[string]string{"MD|sync.Map": "Bool", "MV|sync.Map|$tag": "Int", "MV|sync.Map|$val": "Int"} {
			ws.Keys[k] = true
			ws.Sorts[k] = s
		}
		return
	}
	if strings.HasPrefix(name, "(*sync.") || strings.HasPrefix(name, "sync/atomic.") || strings.Contains(name, "libs/sync.") || strings.Contains(name, "go-deadlock") {
		if strings.HasPrefix(name, "sync/atomic.Store") || strings.HasPrefix(name, "sync/atomic.Add") {
			if pt, ok := cc.Args[0].Type().Underlying().(*types.Pointer); ok {
				kind, root, prefix, ok2 := staticLoc(cc.Args[0])
				if ok2 && kind != "" {
					addType(kind, root, prefix, pt.Elem())
				} else if !ok2 {
					ws.All = true
				}
			}
		}
		return
	}
	if !inModule(callee) {
		if purePkgs[pkgPathOf(callee)] {
			return
		}
		switch name {
		case "sort.Sort", "sort.Stable", "sort.Slice", "sort.SliceStable":
			for _, a := range cc.Args {
				e.addReachable(ws, a.Type(), addType)
			}
			if mi, ok := cc.Args[0].(*ssa.MakeInterface); ok {
				e.addReachable(ws, mi.X.Type(), addType)
			}
			return
		}
		// external: may write through pointer / slice arguments
		for _, a := range cc.Args {
			e.addReachable(ws, a.Type(), addType)
		}
		return
	}
	merge(e.writeSet(callee))
}

func (e *Engine) addReachable(ws *WriteSet, t types.Type, addType func(string, types.Type, string, types.Type)) {
	switch u := t.Underlying().(type) {
	case *types.Pointer:
		if !isOpaqueStruct(u.Elem()) {
			addType("F|", u.Elem(), "", u.Elem())
		}
	case *types.Slice:
		if !isAbstractBytes(t) {
			addType("E|", u.Elem(), "", u.Elem())
		}
	case *types.Interface:
		ws.All = true
	}
}

func (e *Engine) contractWrites(ws *WriteSet, fc *FuncContract) {
	for _, gs := range fc.Sets {
		ws.Ghosts[gs.Ghost] = true
	}
	for _, a := range fc.Assigns {
		// all(T.f) or ghost name or location expression: approximate by key
		if ce, ok := a.Expr.(*ast.CallExpr); ok && (identName(ce.Fun) == "all" || identName(ce.Fun) == "elems") {
			if ks := e.allKeysOf(fc.PkgPath, ce); len(ks) > 0 {
				for k, s := range ks {
					ws.Keys[k] = true
					ws.Sorts[k] = s
				}
				continue
			}
		}
		if id, ok := a.Expr.(*ast.Ident); ok {
			if _, isG := e.cs.Ghosts[id.Name]; isG {
				ws.Ghosts[id.Name] = true
				continue
			}
			if id.Name == "dbstate" {
				for k, srt := range dbStateKeys {
					ws.Keys[k] = true
					ws.Sorts[k] = srt
				}
				continue
			}
			if id.Name == "syncmaps" {
				ws.Keys["MD|sync.Map"], ws.Keys["MV|sync.Map|$tag"], ws.Keys["MV|sync.Map|$val"] = true, true, true
				ws.Sorts["MD|sync.Map"], ws.Sorts["MV|sync.Map|$tag"], ws.Sorts["MV|sync.Map|$val"] = "Bool", "Int", "Int"
				continue
			}
		}
		// location expression x.f: approximated by the whole field array of the static type — resolved at use
		ws.All = true
	}
}

// allKey resolves all(T.f.g) to a heap array key.
func (e *Engine) allKeysOf(pkgPath string, ce *ast.CallExpr) map[string]string {
	out := map[string]string{}
	if len(ce.Args) != 1 {
		return out
	}
	if identName(ce.Fun) == "elems" {
		// elems(T): the elements of every slice of T
		if t := e.typeFromExpr(pkgPath, ce.Args[0]); t != nil {
			for _, l := range leaves(t) {
				out["E|"+typeKey(t)+"|"+l.Path] = l.Sort
			}
		}
		return out
	}
	var parts []string
	ex := ce.Args[0]
	for {
		if se, ok := ex.(*ast.SelectorExpr); ok {
			parts = append([]string{se.Sel.Name}, parts...)
			ex = se.X
			continue
		}
		if id, ok := ex.(*ast.Ident); ok {
			parts = append([]string{id.Name}, parts...)
		}
		break
	}
	if len(parts) < 2 {
		return out
	}
	pkg := e.tpkgs[pkgPath]
	var tn types.Object
	rest := parts[1:]
	if pkg != nil {
		tn = pkg.Scope().Lookup(parts[0])
	}
	if tn == nil {
		// alias.Type.f
		if m := e.cs.Imports[pkgPath]; m != nil {
			if p, ok := m[parts[0]]; ok && len(parts) >= 3 {
				if ip := e.tpkgs[p]; ip != nil {
					tn = ip.Scope().Lookup(parts[1])
					rest = parts[2:]
				}
			}
		}
	}
	if tn == nil {
		return out
	}
	path := strings.Join(rest, ".")
	for _, l := range leaves(tn.Type()) {
		if l.Path == path || strings.HasPrefix(l.Path, path+".") {
			out["F|"+typeKey(tn.Type())+"|"+l.Path] = l.Sort
		}
	}
	if len(out) > 0 {
		return out
	}
	if n, ok := tn.Type().(*types.Named); ok && n.Obj().Pkg() != nil && len(rest) == 1 {
		if m := e.cs.GhostFields[n.Obj().Pkg().Path()+"."+n.Obj().Name()]; m != nil {
			if _, ok := m[rest[0]]; ok {
				out["F|"+typeKey(tn.Type())+"|$"+rest[0]] = "Int"
				return out
			}
		}
	}
	return out
}

// staticLoc classifies the target of a store: kind "" = local cell, "F|"/"E|" heap; ok=false unknown.
func staticLoc(addr ssa.Value) (kind string, root types.Type, prefix string, ok bool) {
	var path []string
	v := addr
	for {
		switch a := v.(type) {
		case *ssa.FieldAddr:
			pt := a.X.Type().Underlying().(*types.Pointer)
			stt := pt.Elem().Underlying().(*types.Struct)
			path = append([]string{stt.Field(a.Field).Name()}, path...)
			v = a.X
			continue
		case *ssa.IndexAddr:
			switch xt := a.X.Type().Underlying().(type) {
			case *types.Slice:
				if isAbstractBytes(a.X.Type()) {
					return "", nil, "", false
				}
				return "E|", xt.Elem(), strings.Join(path, "."), true
			case *types.Pointer:
				if c, isC := a.Index.(*ssa.Const); isC && c.Value != nil {
					path = append([]string{c.Value.ExactString()}, path...)
					v = a.X
					continue
				}
				return "", nil, "", false
			}
			return "", nil, "", false
		case *ssa.Alloc:
			if !a.Heap {
				return "", nil, "", true
			}
			return "F|", a.Type().Underlying().(*types.Pointer).Elem(), strings.Join(path, "."), true
		case *ssa.Global:
			return "F|", a.Type().Underlying().(*types.Pointer).Elem(), strings.Join(path, "."), true
		default:
			if pt, isP := v.Type().Underlying().(*types.Pointer); isP {
				return "F|", pt.Elem(), strings.Join(path, "."), true
			}
			return "", nil, "", false
		}
	}
}

// ---------- verification of one function ----------

const preamble = `(set-logic ALL)
(define-fun tdiv ((a Int) (b Int)) Int (ite (> b 0) (ite (>= a 0) (div a b) (- (div (- a) b))) (ite (>= a 0) (- (div a (- b))) (div (- a) (- b)))))
(define-fun tmod ((a Int) (b Int)) Int (- a (* b (tdiv a b))))
(declare-fun blen (Int) Int)
(declare-fun bat (Int Int) Int)
(declare-fun bslice (Int Int Int) Int)
(declare-fun bconcat (Int Int) Int)
(assert (forall ((a Int) (b Int)) (! (= (blen (bconcat a b)) (+ (blen a) (blen b))) :pattern ((bconcat a b)))))
(declare-fun bcmp (Int Int) Int)
(assert (forall ((a Int) (b Int)) (! (and (<= (- 1) (bcmp a b)) (<= (bcmp a b) 1) (= (bcmp a b) (- (bcmp b a))) (= (= (bcmp a b) 0) (= a b))) :pattern ((bcmp a b)))))
(assert (forall ((a Int) (b Int) (c Int)) (! (=> (and (<= (bcmp a b) 0) (<= (bcmp b c) 0)) (and (<= (bcmp a c) 0) (=> (or (< (bcmp a b) 0) (< (bcmp b c) 0)) (< (bcmp a c) 0)))) :pattern ((bcmp a b) (bcmp b c)))))
(declare-fun bisnil (Int) Bool)
(declare-fun bupd (Int Int Int) Int)
(declare-fun bzero (Int) Int)
(assert (forall ((n Int)) (! (=> (>= n 0) (= (blen (bzero n)) n)) :pattern ((bzero n)))))
(declare-fun bvand_u (Int Int) Int)
(declare-fun bvor_u (Int Int) Int)
(declare-fun bvxor_u (Int Int) Int)
(declare-fun bvandnot_u (Int Int) Int)
(declare-fun bvshl_u (Int Int) Int)
(declare-fun bvshr_u (Int Int) Int)
(declare-fun maplen ((Array Int Bool) Int) Int)
(declare-fun pow2i (Int) Int)
(assert (= (pow2i 0) 1))
(assert (= (pow2i 1) 2))
(assert (= (pow2i 63) 9223372036854775808))
(assert (= (pow2i 64) 18446744073709551616))
(declare-fun hash_Sum (Int) Int)
(declare-fun hash_sha256 (Int) Int)
(declare-fun hash_SumTruncated (Int) Int)
(declare-fun timeround (Int Int) Int)
(declare-fun unixnano (Int) Int)
(declare-fun unixsec (Int) Int)
(declare-fun unixmilli (Int) Int)
(declare-fun timeofunix (Int Int) Int)
(declare-fun sidx (Int Int) Int)
(assert (forall ((o Int) (i Int)) (! (= (sidx o i) (+ o i)) :pattern ((sidx o i)))))
(declare-fun iaddr (Int Int) Int)
(declare-fun iaddr_base (Int) Int)
(declare-fun iaddr_fld (Int) Int)
(assert (forall ((b Int) (f Int)) (! (and (= (iaddr_base (iaddr b f)) b) (= (iaddr_fld (iaddr b f)) f) (not (= (iaddr b f) 0))) :pattern ((iaddr b f)))))
(declare-sort Fuel 0)
(declare-fun FS (Fuel) Fuel)
(declare-const FZ Fuel)
(declare-const alloc0 (Array Int Bool))
(declare-const locks0 (Array Int Int))
(assert (= (blen 0) 0))
(assert (forall ((x Int)) (! (>= (blen x) 0) :pattern ((blen x)))))
`

func (x *Exec) script(st *State, goal string) string {
	var sb strings.Builder
	sb.WriteString(preamble)
	for _, g := range x.globals {
		sb.WriteString(g)
		sb.WriteByte('\n')
	}
	if x.fc != nil && x.fc.Checks["allocwf"] {
		// heap well-formedness: every reference stored in the entry heap is allocated at entry
		for _, key := range sortedKeys(x.refArrays) {
			name := "|H_" + smtName(key) + "|"
			if !x.globalSet[name] {
				continue
			}
			if strings.HasPrefix(key, "E|") || strings.HasPrefix(key, "MV|") {
				sb.WriteString(fmt.Sprintf("(assert (forall ((qa Int) (qi Int)) (! (select alloc0 (select (select %s qa) qi)) :pattern ((select (select %s qa) qi)))))\n", name, name))
			} else if strings.HasPrefix(key, "F|") {
				sb.WriteString(fmt.Sprintf("(assert (forall ((qp Int)) (! (select alloc0 (select %s qp)) :pattern ((select %s qp)))))\n", name, name))
			}
		}
	}
	for _, d := range x.specDecls {
		sb.WriteString(d)
		sb.WriteByte('\n')
	}
	for _, a := range x.axiomTerms {
		sb.WriteString("(assert " + a + ")\n")
	}
	for _, a := range x.lemmaTerms {
		sb.WriteString("(assert " + a + ")\n")
	}
	// distinct string constants
	if len(x.eng.strIDs) > 0 {
		// ids are distinct integer literals already
	}
	for _, d := range st.decls {
		sb.WriteString(d)
		sb.WriteByte('\n')
	}
	seen := map[string]bool{}
	for _, p := range st.pc {
		if seen[p] {
			continue
		}
		seen[p] = true
		sb.WriteString("(assert " + p + ")\n")
	}
	sb.WriteString("(assert (not " + goal + "))\n(check-sat)\n")
	return sb.String()
}

func (x *Exec) emit(st *State, label, kind, src, goal string) {
	if x.discovery > 0 {
		return
	}
	if parts := splitAnd(goal); len(parts) > 1 && kind != "cover" {
		for _, p := range parts {
			x.emit(st, label, kind, src, p)
			st2 := st // conjuncts already proved are available to the later ones
			st2.pc = append(st2.pc, p)
		}
		// remove the temporarily assumed conjuncts again
		st.pc = st.pc[:len(st.pc)-len(parts)]
		return
	}
	ob := &Obligation{Name: x.fnKey + "#" + label, Func: x.fnKey, Kind: kind, Src: src, Goal: goal, PathID: x.paths, Trace: strings.Join(st.trace, " "), Fn: x.fn, FC: x.fc, Clause: x.curClause}
	if goal == "true" {
		ob.Status, ob.Solver = "unsat", "trivial"
	} else {
		ob.Script = x.script(st, goal)
	}
	x.obls = append(x.obls, ob)
}

type FuncResult struct {
	Key         string
	Obls        []*Obligation
	Paths       int
	Aborted     string
	Notes       []string
	BindErrors  []string
	ExtraCovers []*Obligation
	Assumed     []string
}

// VerifyFunction generates all obligations of one function under contract.
func (e *Engine) VerifyFunction(fc *FuncContract) *FuncResult {
	fn := e.fcFunc[fc]
	key := pkgShort(fc.PkgPath) + "." + fc.Key
	res := &FuncResult{Key: key}
	if fn == nil {
		res.Aborted = "contract cannot be bound: function " + fc.Key + " not found in " + fc.PkgPath
		return res
	}
	if fn.Blocks == nil {
		res.Aborted = "function has no body"
		return res
	}
	if fc.Pure && !fc.PureRefs {
		if why := e.impure(fn); why != "" {
			res.Aborted = "contract says pure but the function " + why
			return res
		}
	}
	x := newExec(e, fn, fc)
	x.fnKey = key
	x.loopHeads, x.loopBody = x.analyzeLoops(fn)
	defer func() {
		if r := recover(); r != nil {
			if ee, ok := r.(evalError); ok {
				res.Aborted = "contract evaluation: " + ee.msg
				return
			}
			panic(r)
		}
	}()
	st := &State{cells: map[*Cell]*Value{}, promo: map[*Cell]string{}, heap: map[string]string{}, ghost: map[string]*Value{},
		cut: map[*ssa.BasicBlock]bool{}, written: map[string]bool{}, wcells: map[*Cell]bool{}, boxes: map[string]*Value{}, iters: map[string]*mapIter{},
		allocT: "alloc0", locks: "locks0"}
	e.touchBody(fn)
	fr := &Frame{fn: fn, regs: map[ssa.Value]*Value{}}
	st.frames = []*Frame{fr}
	x.params = map[string]*Value{}
	for _, p := range fn.Params {
		v := x.freshValue(st, p.Type(), "in_"+p.Name())
		x.markValueAllocated(st, v)
		fr.regs[p] = v
		x.params[p.Name()] = v
	}
	// ghost state
	for _, g := range e.cs.Ghosts {
		st.ghost[g.Name] = x.freshValue(st, e.ghostType(g), "ghost_"+g.Name)
	}
	sends := x.fresh(st, "sends", "(Array Int Int)")
	st.assume(fmt.Sprintf("(= %s ((as const (Array Int Int)) 0))", sends))
	st.ghost["$sends"] = leaf(nil, sends)
	st.ghost["$lastsent"] = leaf(nil, x.fresh(st, "lastsent", "(Array Int Int)"))
	rn := x.fresh(st, "recvnil", "(Array Int Bool)")
	st.assume(fmt.Sprintf("(= %s ((as const (Array Int Bool)) false))", rn))
	st.ghost["$recvnil"] = leaf(nil, rn)
	// axioms
	for _, ax := range e.cs.Axioms {
		env := &Env{x: x, st: st, old: st, names: map[string]*Value{}, pkg: e.typesPkg(e.cs.AxiomPkg[ax]), pkgPath: e.cs.AxiomPkg[ax]}
		x.axiomTerms = append(x.axiomTerms, x.evalBool(env, ax))
		x.axiomNames = append(x.axiomNames, ax.Label+": "+ax.Src)
	}
	// proved postconditions of `pure` functions are available as quantified facts about their function symbols
	for _, pfc := range e.sortedContracts() {
		if (!pfc.Pure && !pfc.PureRefs) || pfc.Extern || pfc == fc || len(pfc.Ensures) == 0 {
			continue
		}
		if ax := x.pureAxiom(pfc); ax != "" {
			x.axiomTerms = append(x.axiomTerms, ax)
			x.axiomNames = append(x.axiomNames, "postconditions of pure function "+pkgShort(pfc.PkgPath)+"."+pfc.Key+map[bool]string{false: " (proved as its own obligations)", true: " (TRUSTED: its body is not verified)"}[pfc.Trusted])
		}
	}
	for _, ln := range fc.Uses {
		found := false
		for _, lem := range e.cs.Lemmas {
			if lem.Name == ln {
				x.lemmaTerms = append(x.lemmaTerms, x.lemmaAxiom(lem))
				x.axiomNames = append(x.axiomNames, "lemma "+ln+" (proved separately as obligation "+pkgShort(lem.PkgPath)+".lemma."+ln+"#lemma)")
				found = true
			}
		}
		if !found {
			res.Aborted = "contract uses unknown lemma " + ln
			return res
		}
	}
	pkg := fn.Pkg.Pkg
	env := &Env{x: x, st: st, old: st, names: x.params, pkg: pkg, pkgPath: pkg.Path(), dropGuards: true}
	for _, r := range fc.Requires {
		st.assume(x.evalBool(env, r))
	}
	x.entry = st.snapshotView()
	// vacuity probe: the preconditions (and axioms) must be satisfiable
	cov := &Obligation{Name: key + "#cover:requires", Func: key, Kind: "cover", Src: "preconditions and axioms are satisfiable", Goal: "false"}
	cov.Script = x.script(st, "false")
	x.obls = append(x.obls, cov)
	x.entryCover = cov
	if fc.Checks["deterministic"] {
		ob := &Obligation{Name: key + "#deterministic", Func: key, Kind: "frame", Src: "no clock, randomness, map iteration, goroutine, channel or unlisted dynamic call in the static call graph", Goal: "syntactic"}
		if v := e.determinismViolations(fn); len(v) == 0 {
			ob.Status, ob.Solver = "unsat", "callgraph"
		} else {
			ob.Status, ob.Solver, ob.Output = "unknown", "callgraph", strings.Join(v, "\n")
		}
		x.obls = append(x.obls, ob)
	}
	if fc.Trusted {
		res.Obls = x.obls
		res.Assumed = append(res.Assumed, "contract of "+key+" is trusted (body not verified)")
		return res
	}
	sig := fn.Signature
	x.enterBlock(st, fn.Blocks[0], nil, func(s *State, results []*Value) {
		if x.discovery > 0 {
			x.mergeDiscovery(s)
			return
		}
		names := cloneNames(x.params)
		bindResults(names, sig, results)
		if fc.Pure && len(results) == 1 && results[0].K == KLeaf {
			// the result is, by the syntactic purity check, a function of the arguments: name it
			var terms []string
			for _, p := range fn.Params {
				terms = append(terms, x.flatten(x.params[p.Name()])...)
			}
			name := fmt.Sprintf("pure_%s_0_0", smtName(fc.PkgPath+"."+fc.Key))
			x.globalDecl(name, fmt.Sprintf("(declare-fun %s (%s) %s)", name, strings.TrimSpace(strings.Repeat("Int ", len(terms))), sortOf(results[0].T)))
			s.assume(fmt.Sprintf("(= %s (%s %s))", results[0].Term, name, strings.Join(terms, " ")))
		}
		penv := &Env{x: x, st: s, old: x.entry, names: names, pkg: pkg, pkgPath: pkg.Path(), proving: true, fn: fn, atBlock: s.curBlock, localsAfterNames: true}
		for _, en := range fc.Ensures {
			g := x.evalBool(penv, en)
			x.curClause = en
			x.emit(s, "post:"+en.Label, "post", en.Src, g)
			x.curClause = nil
		}
		if fc.AssignsNone || len(fc.Assigns) > 0 {
			x.frameObligations(s)
		}
		// vacuity probe: some returning path must be satisfiable (contradictory callee contracts would make all of them unsat)
		if x.retCovers < 400 {
			x.retCovers++
			cov := &Obligation{Name: key + "#cover:return", Func: key, Kind: "cover", Src: "a returning path is satisfiable", Goal: "false", Trace: strings.Join(s.trace, " ")}
			cov.Script = x.script(s, "false")
			x.retCoverCands = append(x.retCoverCands, cov)
		}
		x.pathDone()
	})
	// consistency probe of the background theory actually used (preamble, declarations, spec function definitions,
	// axioms, lemmas) without any path facts: must not be unsat
	{
		empty := &State{}
		ax := &Obligation{Name: key + "#cover:axioms", Func: key, Kind: "cover", Src: "background axioms and definitions are consistent", Goal: "false"}
		ax.Script = x.script(empty, "false")
		x.obls = append(x.obls, ax)
	}
	// vacuity probes on returning paths: up to 6, spread evenly over the explored paths
	if n := len(x.retCoverCands); n > 0 {
		k := 6
		if n < k {
			k = n
		}
		picked := map[int]bool{}
		for i := 0; i < k; i++ {
			x.obls = append(x.obls, x.retCoverCands[i*n/k])
			picked[i*n/k] = true
		}
		// second stage (used only when all of the above are unsat): up to 60 further returning paths
		for i, c := range x.retCoverCands {
			if !picked[i] && len(res.ExtraCovers) < 60 {
				res.ExtraCovers = append(res.ExtraCovers, c)
			}
		}
	}
	// an `atcall` clause whose callee is never called in this function would silently claim nothing
	if x.aborted == "" {
		for callee := range fc.AtCall {
			if !x.atcallSeen[callee] {
				x.bindErrors = append(x.bindErrors, fmt.Sprintf("%s:%d: atcall %s: no call site of that name in %s (nothing would be checked)", fc.File, fc.Line, callee, key))
			}
		}
	}
	res.Obls = x.obls
	res.Paths = x.paths
	res.Aborted = x.aborted
	res.BindErrors = x.bindErrors
	for n := range x.notes {
		res.Notes = append(res.Notes, n)
	}
	sort.Strings(res.Notes)
	res.Assumed = append(res.Assumed, x.axiomNames...)
	for _, k := range sortedKeys(x.assumedObjInv) {
		if strings.Contains(k, " applied at a call") {
			res.Assumed = append(res.Assumed, k)
			continue
		}
		res.Assumed = append(res.Assumed, "object invariant "+k+" assumed at calls from outside its package")
	}
	for _, r := range fc.Requires {
		kind := "precondition"
		if r.ObjInv {
			kind = "object invariant"
		}
		res.Assumed = append(res.Assumed, kind+" of "+key+" assumed at its entry (proved at its call sites inside functions under contract; an assumption about every other caller): "+r.Label+": "+r.Src)
	}
	return res
}

func pkgShort(path string) string {
	p := strings.TrimPrefix(path, modulePath+"/")
	if p == path {
		return filepath.Base(path)
	}
	return p
}

// frameObligations: at a return, every heap location that differs from the entry state must be either
// freshly allocated on this path or named by the assigns clause.
type frameAllowed struct{ base, idx string }

type frameSpec struct {
	except  []string // assigns except(...): everything may change but the state of these packages/types
	allow   map[string][]frameAllowed
	ghostOK map[string]bool
	allKeys map[string]bool
}

// frameSpecOf evaluates the assigns clause once (its terms mention entry-state symbols only).
func (x *Exec) frameSpecOf(st *State) *frameSpec {
	if x.fspec != nil {
		return x.fspec
	}
	fs := &frameSpec{allow: map[string][]frameAllowed{}, ghostOK: map[string]bool{}, allKeys: map[string]bool{}}
	allow, ghostOK, allKeys := fs.allow, fs.ghostOK, fs.allKeys
	for _, gs := range x.fc.Sets {
		ghostOK[gs.Ghost] = true
	}
	pkg := x.fn.Pkg.Pkg
	for _, a := range x.fc.Assigns {
		if ce, ok := a.Expr.(*ast.CallExpr); ok && identName(ce.Fun) == "except" {
			fs.except = x.eng.exceptPkgs(pkg.Path(), ce)
			continue
		}
		if ce, ok := a.Expr.(*ast.CallExpr); ok && (identName(ce.Fun) == "all" || identName(ce.Fun) == "elems") {
			for k := range x.eng.allKeysOf(pkg.Path(), ce) {
				allKeys[k] = true
			}
			continue
		}
		if id, ok := a.Expr.(*ast.Ident); ok {
			if _, isG := x.eng.cs.Ghosts[id.Name]; isG {
				ghostOK[id.Name] = true
				continue
			}
			if id.Name == "syncmaps" {
				allKeys["MD|sync.Map"], allKeys["MV|sync.Map|$tag"], allKeys["MV|sync.Map|$val"] = true, true, true
				continue
			}
			if id.Name == "dbstate" {
				for k := range dbStateKeys {
					allKeys[k] = true
				}
				continue
			}
		}
		func() {
			defer func() {
				if r := recover(); r != nil {
					if _, ok := r.(evalError); !ok {
						panic(r)
					}
				}
			}()
			env := &Env{x: x, st: st, old: x.entry, names: x.params, pkg: pkg, pkgPath: pkg.Path(), inOld: true}
			lv := env.lvalue(a.Expr)
			prefix, t := pathInfo(lv.P.Root, lv.P.Path)
			kind := "F|"
			if lv.P.Idx != "" {
				kind = "E|"
			}
			if lv.P.Ghost != "" {
				k := "F|" + typeKey(lv.P.Root) + "|" + lv.P.Ghost
				allow[k] = append(allow[k], frameAllowed{lv.P.Base, ""})
				return
			}
			for _, l := range leaves(t) {
				k := kind + typeKey(lv.P.Root) + "|" + joinPath(prefix, l.Path)
				allow[k] = append(allow[k], frameAllowed{lv.P.Base, lv.P.Idx})
			}
		}()
	}
	x.fspec = fs
	return fs
}

func (fs *frameSpec) allowedTerms(key string) []string {
	var as []string
	for _, a := range fs.allow[key] {
		if strings.HasPrefix(key, "E|") || strings.HasPrefix(key, "MD|") || strings.HasPrefix(key, "MV|") {
			as = append(as, fmt.Sprintf("(and (= qr %s) (= qi %s))", a.base, a.idx))
		} else {
			as = append(as, fmt.Sprintf("(= qr %s)", a.base))
		}
	}
	return as
}

// loopFrameGoals: for a function with an assigns clause, the frame so far, as an automatic loop invariant.
func (x *Exec) loopFrameGoals(st *State, keys map[string]bool) []string {
	if x.fc == nil || !(x.fc.AssignsNone || len(x.fc.Assigns) > 0) {
		return nil
	}
	fs := x.frameSpecOf(st)
	var goals []string
	for _, key := range sortedKeys(keys) {
		if key == "*" || strings.HasPrefix(key, "*|") || strings.HasPrefix(key, "G|") || key == "L|" || fs.allKeys[key] {
			continue
		}
		if fs.except != nil && !keyInPkgs(key, fs.except) {
			continue
		}
		srt := x.arrSort[key]
		if srt == "" {
			continue
		}
		cur := x.heapArr(st, key, srt)
		old := x.heapArr(x.entry, key, srt)
		if cur == old {
			continue
		}
		goals = append(goals, x.frameGoal(key, cur, old, false, fs.allowedTerms(key)))
	}
	return goals
}

func (x *Exec) frameObligations(st *State) {
	fs := x.frameSpecOf(st)
	ghostOK, allKeys := fs.ghostOK, fs.allKeys
	var goals []string
	var gkeys []string
	for _, key := range sortedKeys(st.written) {
		if fs.except != nil && strings.HasPrefix(key, "*|") {
			// a callee's partial havoc is within this frame when it leaves alone at least what this function promises
			left := strings.Split(key[2:], ",")
			ok := true
			for _, p := range fs.except {
				found := false
				for _, q := range left {
					if p == q || strings.HasPrefix(p, q+".") {
						found = true
					}
				}
				ok = ok && found
			}
			if ok {
				continue
			}
		}
		if key == "*" || strings.HasPrefix(key, "*|") {
			x.emit(st, "frame:heap", "frame", "whole heap havocked by a callee without frame", "false")
			continue
		}
		if strings.HasPrefix(key, "G|") {
			g := key[2:]
			if strings.HasPrefix(g, "$") || ghostOK[g] {
				continue
			}
			cur := st.ghost[g]
			old := x.entry.ghost[g]
			if cur != nil && old != nil {
				x.emit(st, "frame:"+g, "frame", "ghost "+g+" unchanged", x.valuesEqual(st, cur, old))
			}
			continue
		}
		if key == "L|" || allKeys[key] {
			continue
		}
		if fs.except != nil && !keyInPkgs(key, fs.except) {
			continue
		}
		srt := x.arrSort[key]
		cur := st.heap[key]
		if cur == "" {
			continue
		}
		old := x.heapArr(x.entry, key, srt)
		if cur == old {
			continue
		}
		goal := x.frameGoal(key, cur, old, false, fs.allowedTerms(key))
		goals = append(goals, goal)
		gkeys = append(gkeys, key)
	}
	if len(goals) > 0 {
		x.emit(st, "frame", "frame", "only assigned or fresh locations change: "+strings.Join(gkeys, " "), smtAnd(goals))
	}
}

// splitAnd splits a top-level (and a b c) term into its conjuncts.
func splitAnd(t string) []string {
	if !strings.HasPrefix(t, "(and ") || !strings.HasSuffix(t, ")") {
		return nil
	}
	body := t[5 : len(t)-1]
	var parts []string
	depth, start := 0, 0
	inBar := false
	for i := 0; i < len(body); i++ {
		c := body[i]
		if c == '|' {
			inBar = !inBar
		}
		if inBar {
			continue
		}
		switch c {
		case '(':
			depth++
		case ')':
			depth--
			if depth < 0 {
				return nil
			}
		case ' ':
			if depth == 0 {
				if i > start {
					parts = append(parts, body[start:i])
				}
				start = i + 1
			}
		}
	}
	if depth != 0 {
		return nil
	}
	if start < len(body) {
		parts = append(parts, body[start:])
	}
	return parts
}

// impure: "" if fn is syntactically a deterministic function of its scalar arguments
// (no heap reads or writes, only calls to functions in pure packages or with pure contracts).
func (e *Engine) impure(fn *ssa.Function) string {
	for _, p := range fn.Params {
		if _, isI := p.Type().Underlying().(*types.Interface); isI {
			continue
		}
		if !isLeafType(p.Type()) || sortOf(p.Type()) == "" {
			return "takes a composite parameter"
		}
		if _, isP := p.Type().Underlying().(*types.Pointer); isP {
			return "takes a pointer parameter"
		}
	}
	for _, b := range fn.Blocks {
		for _, ins := range b.Instrs {
			switch in := ins.(type) {
			case *ssa.Store:
				if kind, _, _, ok := staticLoc(in.Addr); (!ok || kind != "") && !allocRooted(in.Addr) {
					return "writes the heap"
				}
			case *ssa.UnOp:
				if in.Op == token.MUL {
					if kind, _, _, ok := staticLoc(in.X); (!ok || kind != "") && !allocRooted(in.X) {
						return "reads the heap"
					}
				}
				if in.Op == token.ARROW {
					return "receives from a channel"
				}
			case *ssa.Call:
				if in.Call.IsInvoke() {
					if e.pureIface(in.Call.Method, in.Call.Value.Type()) {
						continue
					}
					return "calls an interface method"
				}
				if _, isB := in.Call.Value.(*ssa.Builtin); isB {
					continue
				}
				c := in.Call.StaticCallee()
				if c == nil {
					return "makes a dynamic call"
				}
				if fc := e.contractOf(c); fc != nil && fc.Pure {
					continue
				}
				if inModule(c) && c.Blocks != nil && c != fn && !e.impureBusy[c] {
					e.impureBusy[c] = true
					why := e.impure(c)
					delete(e.impureBusy, c)
					if why == "" {
						continue
					}
				}
				if !purePkgs[pkgPathOf(c)] || c.Name() == "Now" || c.Name() == "Since" {
					return "calls " + c.String()
				}
			case *ssa.Go, *ssa.Select, *ssa.Send, *ssa.MapUpdate, *ssa.Lookup, *ssa.Range, *ssa.MakeMap:
				return "uses maps, channels or goroutines"
			}
		}
	}
	return ""
}

// allocRooted: the address is derived from an allocation made by this very function.
func allocRooted(v ssa.Value) bool {
	for {
		switch a := v.(type) {
		case *ssa.FieldAddr:
			v = a.X
		case *ssa.IndexAddr:
			v = a.X
		case *ssa.Alloc:
			return true
		default:
			return false
		}
	}
}

func (e *Engine) sortedContracts() []*FuncContract {
	var ks []string
	for k := range e.cs.Funcs {
		ks = append(ks, k)
	}
	sort.Strings(ks)
	var out []*FuncContract
	for _, k := range ks {
		out = append(out, e.cs.Funcs[k])
	}
	return out
}

// pureAxiom: forall args. requires ==> ensures[result := f(args)] for a pure function (no heap reads in its clauses).
func (x *Exec) pureAxiom(pfc *FuncContract) (ax string) {
	fn := x.eng.funcOfContract(pfc)
	if fn == nil || fn.Signature.Results().Len() != 1 {
		return ""
	}
	defer func() {
		if r := recover(); r != nil {
			if _, ok := r.(evalError); ok {
				ax = ""
				return
			}
			panic(r)
		}
	}()
	si := &specInst{name: "pureax", heapSort: map[string]string{}, prefix: "hpx_"}
	st := newSpecState(si)
	names := map[string]*Value{}
	var syms, terms []string
	for _, p := range fn.Params {
		k := 0
		v := mkValue(p.Type(), func(l Leaf) string {
			nm := fmt.Sprintf("pa_%s_%d", p.Name(), k)
			k++
			syms = append(syms, fmt.Sprintf("(%s %s)", nm, l.Sort))
			return nm
		})
		names[p.Name()] = v
		for i, t := range x.flatten(v) {
			if leaves(p.Type())[i].Sort == "Bool" {
				t = fmt.Sprintf("(ite %s 1 0)", t)
			}
			terms = append(terms, t)
		}
	}
	rt := fn.Signature.Results().At(0).Type()
	if len(leaves(rt)) != 1 {
		return ""
	}
	name := fmt.Sprintf("pure_%s_0_0", smtName(pfc.PkgPath+"."+pfc.Key))
	x.globalDecl(name, fmt.Sprintf("(declare-fun %s (%s) %s)", name, strings.TrimSpace(strings.Repeat("Int ", len(terms))), sortOf(rt)))
	app := fmt.Sprintf("(%s %s)", name, strings.Join(terms, " "))
	res := leaf(rt, app)
	bindResults(names, fn.Signature, []*Value{res})
	env := &Env{x: x, st: st, old: st, names: names, pkg: fn.Pkg.Pkg, pkgPath: fn.Pkg.Pkg.Path()}
	var reqs, enss []string
	for _, r := range pfc.Requires {
		reqs = append(reqs, x.evalBool(env, r))
	}
	for _, en := range pfc.Ensures {
		enss = append(enss, x.evalBool(env, en))
	}
	if len(si.heapKeys) > 0 {
		return "" // clauses read the heap: not a fact about the function symbol alone
	}
	enss = append(enss, st.pc...)
	body := smtAnd(enss)
	if len(reqs) > 0 {
		body = fmt.Sprintf("(=> %s %s)", smtAnd(reqs), body)
	}
	return fmt.Sprintf("(forall (%s) (! %s :pattern (%s)))", strings.Join(syms, " "), body, app)
}

// frameGoal: every object that existed at function entry (alloc0) and is not an allowed location keeps its content.
func (x *Exec) frameGoal(key, cur, old string, _ bool, allowed []string) string {
	twoLevel := strings.HasPrefix(key, "E|") || strings.HasPrefix(key, "MD|") || strings.HasPrefix(key, "MV|")
	alts := []string{"(not (select alloc0 qr))"}
	alts = append(alts, allowed...)
	if twoLevel {
		alts = append(alts, fmt.Sprintf("(= (select (select %s qr) qi) (select (select %s qr) qi))", cur, old))
		return fmt.Sprintf("(forall ((qr Int) (qi Int)) %s)", smtOr(alts))
	}
	alts = append(alts, fmt.Sprintf("(= (select %s qr) (select %s qr))", cur, old))
	return fmt.Sprintf("(forall ((qr Int)) %s)", smtOr(alts))
}

// typeFromExpr resolves T, alias.T, *T, []T written in a contract to a Go type.
func (e *Engine) typeFromExpr(pkgPath string, ex ast.Expr) types.Type {
	switch n := ex.(type) {
	case *ast.StarExpr:
		if t := e.typeFromExpr(pkgPath, n.X); t != nil {
			return types.NewPointer(t)
		}
	case *ast.ArrayType:
		if n.Len == nil {
			if t := e.typeFromExpr(pkgPath, n.Elt); t != nil {
				return types.NewSlice(t)
			}
		}
	case *ast.Ident:
		if pkg := e.tpkgs[pkgPath]; pkg != nil {
			if o := pkg.Scope().Lookup(n.Name); o != nil {
				return o.Type()
			}
		}
		if o := types.Universe.Lookup(n.Name); o != nil {
			return o.Type()
		}
	case *ast.SelectorExpr:
		if id, ok := n.X.(*ast.Ident); ok {
			if m := e.cs.Imports[pkgPath]; m != nil {
				if p, ok := m[id.Name]; ok {
					if ip := e.tpkgs[p]; ip != nil {
						if o := ip.Scope().Lookup(n.Sel.Name); o != nil {
							return o.Type()
						}
					}
				}
			}
		}
	}
	return nil
}

// initOnlyErrGlobal: g is a package-level variable of type error whose only assignment is its initialiser, a call of
// errors.New / fmt.Errorf (so it is non-nil for the whole execution). Assignments are searched in the declaring
// package; an exported variable reassigned from another package would escape this (none does in this repository).
func (e *Engine) initOnlyErrGlobal(g *ssa.Global) bool {
	if v, ok := e.errGlobals[g]; ok {
		return v
	}
	if e.errGlobals == nil {
		e.errGlobals = map[*ssa.Global]bool{}
	}
	ok := false
	defer func() { e.errGlobals[g] = ok }()
	pt, isPtr := g.Type().Underlying().(*types.Pointer)
	if !isPtr || !types.Identical(pt.Elem(), types.Universe.Lookup("error").Type()) || g.Pkg == nil {
		return false
	}
	g.Pkg.Build() // packages outside the module are built on demand
	inits, others := 0, 0
	var visit func(fn *ssa.Function)
	seen := map[*ssa.Function]bool{}
	visit = func(fn *ssa.Function) {
		if fn == nil || seen[fn] {
			return
		}
		seen[fn] = true
		for _, b := range fn.Blocks {
			for _, ins := range b.Instrs {
				if s, isStore := ins.(*ssa.Store); isStore && s.Addr == g {
					good := false
					if fn.Name() == "init" && fn.Pkg == g.Pkg {
						if call, isCall := s.Val.(*ssa.Call); isCall {
							if callee := call.Call.StaticCallee(); callee != nil {
								switch callee.String() {
								case "errors.New", "fmt.Errorf":
									good = true
								}
							}
						}
					}
					if good {
						inits++
					} else {
						others++
					}
				}
			}
		}
		for _, an := range fn.AnonFuncs {
			visit(an)
		}
	}
	for _, m := range g.Pkg.Members {
		switch mm := m.(type) {
		case *ssa.Function:
			visit(mm)
		case *ssa.Type:
			for _, t := range []types.Type{mm.Type(), types.NewPointer(mm.Type())} {
				ms := e.prog.MethodSets.MethodSet(t)
				for i := 0; i < ms.Len(); i++ {
					visit(e.prog.MethodValue(ms.At(i)))
				}
			}
		}
	}
	ok = inits == 1 && others == 0
	return ok
}

// exceptPkgs resolves the package aliases of an except(...) frame to module-relative dotted package names.
func (e *Engine) exceptPkgs(pkgPath string, ce *ast.CallExpr) []string {
	var out []string
	for _, a := range ce.Args {
		tname := ""
		if se, isSel := a.(*ast.SelectorExpr); isSel {
			// alias.Type: the state of this one type
			tname = "." + se.Sel.Name
			a = se.X
		}
		id, ok := a.(*ast.Ident)
		if !ok {
			return nil
		}
		full := ""
		if m := e.cs.Imports[pkgPath]; m != nil {
			full = m[id.Name]
		}
		if full == "" {
			if tp := e.tpkgs[pkgPath]; tp != nil && tp.Name() == id.Name {
				full = pkgPath
			}
		}
		if full == "" {
			return nil
		}
		full = strings.TrimPrefix(full, modulePath+"/")
		out = append(out, strings.ReplaceAll(full, "/", ".")+tname)
	}
	sort.Strings(out)
	return out
}

// regExtern registers an extern contract; two contract files giving different contracts to the same method or function
// would make the result depend on load order, so that is an error unless the two are textually the same clauses.
func (e *Engine) regExtern(key string, fc *FuncContract) {
	if prev, ok := e.methFC[key]; ok && prev != fc {
		if !sameClauses(prev, fc) {
			e.loadErrs = append(e.loadErrs, fmt.Sprintf("conflicting extern contracts for %s: %s:%d and %s:%d", key, prev.File, prev.Line, fc.File, fc.Line))
		}
		// identical: keep the first (deterministic by file name)
		if prev.File+fmt.Sprint(prev.Line) < fc.File+fmt.Sprint(fc.Line) {
			return
		}
	}
	e.methFC[key] = fc
}

func sameClauses(a, b *FuncContract) bool {
	sig := func(f *FuncContract) string {
		var sb strings.Builder
		for _, c := range f.Requires {
			sb.WriteString("R:" + c.Src + ";")
		}
		for _, c := range f.Ensures {
			sb.WriteString("E:" + c.Src + ";")
		}
		for _, c := range f.Grants {
			sb.WriteString("G:" + c.Src + ";")
		}
		for _, c := range f.Assigns {
			sb.WriteString("A:" + c.Src + ";")
		}
		for _, s := range f.Sets {
			sb.WriteString("S:" + s.Ghost + "=" + s.Expr.Src + "/" + s.Cond.Src + ";")
		}
		sb.WriteString(fmt.Sprint(f.AssignsNone, f.Pure, f.PureRefs, f.Trusted))
		return sb.String()
	}
	return sig(a) == sig(b)
}
