package main

import (
	"flag"
	"fmt"
	"os"
	"runtime"
	"sort"
	"strings"
	"time"
)

// memoryWatchdog aborts the process before a runaway symbolic execution exhausts the machine.
func memoryWatchdog() {
	limit := uint64(20) << 30
	if v := os.Getenv("GOVC_MEM_GB"); v != "" {
		var n uint64
		if _, err := fmt.Sscanf(v, "%d", &n); err == nil && n > 0 {
			limit = n << 30
		}
	}
	go func() {
		var ms runtime.MemStats
		for {
			time.Sleep(500 * time.Millisecond)
			runtime.ReadMemStats(&ms)
			if ms.HeapAlloc > limit {
				fmt.Fprintf(os.Stderr, "govc: ABORTED: heap %d MiB exceeds the limit of %d MiB (a function under contract is outside what the engine can execute symbolically)\n", ms.HeapAlloc>>20, limit>>20)
				os.Exit(4)
			}
		}
	}()
}

func main() {
	memoryWatchdog()
	if len(os.Args) < 2 {
		fmt.Fprintln(os.Stderr, "usage: govc verify|check ...")
		os.Exit(2)
	}
	switch os.Args[1] {
	case "verify":
		cmdVerify(os.Args[2:])
	case "check":
		cmdCheck(os.Args[2:])
	case "ssa":
		cmdSSA(os.Args[2:])
	default:
		fmt.Fprintln(os.Stderr, "unknown command")
		os.Exit(2)
	}
}

func cmdVerify(args []string) {
	fs := flag.NewFlagSet("verify", flag.ExitOnError)
	repo := fs.String("repo", "/repo", "repository root")
	pkgs := fs.String("pkgs", "", "comma separated package patterns")
	funcs := fs.String("funcs", "", "comma separated function keys (pkg.Key); empty = all contracts in loaded packages")
	timeout := fs.Int("timeout", 10, "solver timeout per obligation (s)")
	dump := fs.String("dump", "", "dump scripts of obligations whose name contains this string")
	verbose := fs.Bool("v", false, "verbose")
	mutate := fs.String("mutate", "", "file::old::new (in-memory overlay mutation)")
	fs.Parse(args)
	var overlay map[string][]byte
	if *mutate != "" {
		parts := strings.SplitN(*mutate, "::", 3)
		path := *repo + "/" + parts[0]
		data, err := os.ReadFile(path)
		if err != nil {
			panic(err)
		}
		if strings.Count(string(data), parts[1]) != 1 {
			fmt.Fprintf(os.Stderr, "mutation pattern occurs %d times\n", strings.Count(string(data), parts[1]))
			os.Exit(2)
		}
		overlay = map[string][]byte{path: []byte(strings.Replace(string(data), parts[1], parts[2], 1))}
	}
	eng, err := LoadEngine(*repo, strings.Split(*pkgs, ","), overlay)
	if err != nil {
		fmt.Fprintln(os.Stderr, "BUILD-ERROR:", err)
		os.Exit(2)
	}
	want := map[string]bool{}
	for _, f := range strings.Split(*funcs, ",") {
		if f != "" {
			want[f] = true
		}
	}
	var fcs []*FuncContract
	for _, fc := range eng.cs.Funcs {
		if fc.Extern {
			continue
		}
		key := pkgShort(fc.PkgPath) + "." + fc.Key
		if len(want) == 0 || want[key] {
			fcs = append(fcs, fc)
		}
	}
	sort.Slice(fcs, func(i, j int) bool { return fcs[i].PkgPath+fcs[i].Key < fcs[j].PkgPath+fcs[j].Key })
	var all []*Obligation
	var results []*FuncResult
	for _, fc := range fcs {
		r := eng.VerifyFunction(fc)
		results = append(results, r)
		all = append(all, r.Obls...)
	}
	for _, lem := range eng.cs.Lemmas {
		key := pkgShort(lem.PkgPath) + ".lemma." + lem.Name
		if len(want) == 0 || want[key] {
			r := eng.ProveLemma(lem)
			results = append(results, r)
			all = append(all, r.Obls...)
		}
	}
	solveAll(all, *timeout, 14, true)
	for _, r := range results {
		fmt.Printf("== %s: %d obligations, %d paths", r.Key, len(r.Obls), r.Paths)
		if r.Aborted != "" {
			fmt.Printf(" ABORTED: %s", r.Aborted)
		}
		fmt.Println()
		for _, be := range r.BindErrors {
			fmt.Println("   BIND-ERROR:", be)
		}
		if *verbose {
			for _, n := range r.Notes {
				fmt.Println("   note:", n)
			}
		}
		agg := map[string][]*Obligation{}
		var names []string
		for _, ob := range r.Obls {
			if _, ok := agg[ob.Name]; !ok {
				names = append(names, ob.Name)
			}
			agg[ob.Name] = append(agg[ob.Name], ob)
		}
		for _, n := range names {
			obs := agg[n]
			cnt := map[string]int{}
			var secs float64
			for _, ob := range obs {
				cnt[ob.Status]++
				secs += ob.Seconds
			}
			status := "DISCHARGED"
			if obs[0].Kind == "cover" {
				if cnt["unsat"] == len(obs) {
					status = "VACUOUS"
				} else {
					status = "covered"
				}
			} else if cnt["unsat"] != len(obs) {
				status = "FAILED"
			}
			fmt.Printf("   %-70s %-10s n=%d %v %.2fs\n", n, status, len(obs), cnt, secs)
			if status == "FAILED" && obs[0].Solver == "callgraph" {
				fmt.Println("      " + strings.ReplaceAll(obs[0].Output, "\n", "\n      "))
			}
			if *dump != "" && strings.Contains(n, *dump) {
				for i, ob := range obs {
					if ob.Status != "unsat" || obs[0].Kind == "cover" || *dump == n {
						fn := fmt.Sprintf("/tmp/govc_dump_%d.smt2", i)
						os.WriteFile(fn, []byte(ob.Script), 0o644)
						fmt.Printf("      dumped %s (%s) trace=%s\n", fn, ob.Status, ob.Trace)
						if ob.Model != "" && *verbose {
							fmt.Println(ob.Model)
						}
						break
					}
				}
			}
		}
	}
}

func cmdSSA(args []string) {
	fs := flag.NewFlagSet("ssa", flag.ExitOnError)
	repo := fs.String("repo", "/repo", "repository root")
	pkgs := fs.String("pkgs", "", "package patterns")
	fn := fs.String("func", "", "pkg.Key")
	fs.Parse(args)
	eng, err := LoadEngine(*repo, strings.Split(*pkgs, ","), nil)
	if err != nil {
		fmt.Fprintln(os.Stderr, "BUILD-ERROR:", err)
	}
	for path := range eng.spkgs {
		if !strings.HasPrefix(path, modulePath) {
			continue
		}
		ps := pkgShort(path)
		if strings.HasPrefix(*fn, ps+".") {
			if f := eng.findFunc(path, strings.TrimPrefix(*fn, ps+".")); f != nil {
				f.WriteTo(os.Stdout)
				for _, af := range f.AnonFuncs {
					af.WriteTo(os.Stdout)
				}
			}
		}
	}
}
