package main

import (
	"encoding/json"
	"flag"
	"fmt"
	"os"
	"os/exec"
	"path/filepath"
	"regexp"
	"sort"
	"strings"
	"sync"
	"time"
)

const verifRoot = "/verif"

type Canary struct {
	Name   string   `json:"name"`
	File   string   `json:"file"`
	Old    string   `json:"old"`
	New    string   `json:"new"`
	Expect []string `json:"expect"` // obligation names, at least one of which must fail
	Thorough bool   `json:"thorough_only,omitempty"`
}

type PropConfig struct {
	ID          string   `json:"id"`
	Packages    []string `json:"packages"`
	Functions   []string `json:"functions"`
	Stretch     []string `json:"stretch,omitempty"`   // obligation names reported but never counted
	Canaries    []Canary `json:"canaries,omitempty"`
	NotDecided  []string `json:"not_decided,omitempty"`
	Assumptions []string `json:"assumptions,omitempty"`
	Bounded     []string `json:"bounded,omitempty"`
}

type KnownFinding struct {
	Property   string `json:"property"`
	Obligation string `json:"obligation"`
	Status     string `json:"status"` // open | fixed
	What       string `json:"what"`
	Commit     string `json:"commit,omitempty"`
}

type OblSummary struct {
	Name      string
	Kind      string
	Src       string
	Instances int
	Unsat     int
	Status    string // discharged | failed | vacuous | covered | missing
	Solver    map[string]int
	Seconds   float64
	Worst     *Obligation
}

type RunResult struct {
	Summaries  []*OblSummary
	ByName     map[string]*OblSummary
	Funcs      []*FuncResult
	BuildError string
	Wall       float64
	BodyFiles  []string
}

func loadProp(id string) (*PropConfig, error) {
	data, err := os.ReadFile(filepath.Join(verifRoot, "props", id+".json"))
	if err != nil {
		return nil, err
	}
	var pc PropConfig
	if err := json.Unmarshal(data, &pc); err != nil {
		return nil, err
	}
	return &pc, nil
}

// runProperty generates and discharges all obligations of the property's functions.
func runProperty(pc *PropConfig, overlay map[string][]byte, timeoutS int, wantModel bool, only map[string]bool) *RunResult {
	t0 := time.Now()
	rr := &RunResult{ByName: map[string]*OblSummary{}}
	eng, err := LoadEngine(repoRoot(), pc.Packages, overlay)
	if err != nil {
		rr.BuildError = err.Error()
		return rr
	}
	want := map[string]bool{}
	for _, f := range pc.Functions {
		want[f] = true
	}
	var fcs []*FuncContract
	found := map[string]bool{}
	for _, fc := range eng.cs.Funcs {
		if fc.Extern {
			continue
		}
		key := pkgShort(fc.PkgPath) + "." + fc.Key
		if want[key] && (only == nil || only[key]) {
			fcs = append(fcs, fc)
			found[key] = true
		}
	}
	sort.Slice(fcs, func(i, j int) bool { return fcs[i].PkgPath+fcs[i].Key < fcs[j].PkgPath+fcs[j].Key })
	var all []*Obligation
	for _, fc := range fcs {
		r := eng.VerifyFunction(fc)
		rr.Funcs = append(rr.Funcs, r)
		all = append(all, r.Obls...)
	}
	for _, lem := range eng.cs.Lemmas {
		key := pkgShort(lem.PkgPath) + ".lemma." + lem.Name
		if want[key] && (only == nil || only[key]) {
			r := eng.ProveLemma(lem)
			rr.Funcs = append(rr.Funcs, r)
			all = append(all, r.Obls...)
			found[key] = true
		}
	}
	for _, f := range pc.Functions {
		if !found[f] && (only == nil || only[f]) {
			rr.Funcs = append(rr.Funcs, &FuncResult{Key: f, Aborted: "no contract found for " + f + " (contract file missing or key changed)"})
		}
	}
	for f := range eng.bodyFiles {
		rr.BodyFiles = append(rr.BodyFiles, f)
	}
	sort.Strings(rr.BodyFiles)
	// cover probes get a short budget: "unknown" is as good as "sat" for them
	var covers, rest []*Obligation
	for _, ob := range all {
		if ob.Kind == "cover" {
			covers = append(covers, ob)
		} else {
			rest = append(rest, ob)
		}
	}
	var wg sync.WaitGroup
	wg.Add(1)
	go func() { defer wg.Done(); solveAll(covers, 2, 4, false) }()
	solveAll(rest, timeoutS, 12, wantModel)
	wg.Wait()
	// A few undecided obligations (timeout / unknown) get a second, calmer attempt: one at a time, three times the
	// budget, nothing else running. A machine under load must not turn a slow proof into an alarm; an obligation that
	// is really false stays undecided or sat either way. Must-fail canaries (child processes) skip this.
	if os.Getenv("GOVC_CANARY_CHILD") == "" {
		openFinding := map[string]bool{}
		for _, kf := range readKnown() {
			if kf.Status == "open" {
				openFinding[kf.Obligation] = true
			}
		}
		var slow []*Obligation
		for _, ob := range rest {
			if openFinding[ob.Name] {
				continue // a recorded finding: known to fail, no point in a second attempt
			}
			if ob.Status == "timeout" || ob.Status == "unknown" || ob.Status == "error" {
				slow = append(slow, ob)
			}
		}
		if len(slow) > 0 && len(slow) <= 12 {
			for _, ob := range slow {
				ob.Status = ""
			}
			solveAll(slow, timeoutS*3, 2, wantModel)
		}
	}
	if wantModel {
		done := 0
		for _, ob := range rest {
			if ob.Status == "sat" && ob.Model != "" && done < 3 && scalarFunc(ob.Fn) {
				eng.replayScalar(ob)
				done++
			}
		}
	}
	// a function whose sampled returning paths were all infeasible gets more of its returning paths probed before it is
	// called vacuous (the first sample may have hit only branches that cannot be taken, e.g. a recover() that is nil)
	for _, r := range rr.Funcs {
		n, unsat := 0, 0
		for _, ob := range r.Obls {
			if ob.Kind == "cover" && strings.HasSuffix(ob.Name, "#cover:return") {
				n++
				if ob.Status == "unsat" {
					unsat++
				}
			}
		}
		if n > 0 && n == unsat && len(r.ExtraCovers) > 0 {
			solveAll(r.ExtraCovers, 2, 8, false)
			r.Obls = append(r.Obls, r.ExtraCovers...)
		}
	}
	for _, r := range rr.Funcs {
		for _, ob := range r.Obls {
			s := rr.ByName[ob.Name]
			if s == nil {
				s = &OblSummary{Name: ob.Name, Kind: ob.Kind, Src: ob.Src, Solver: map[string]int{}}
				rr.ByName[ob.Name] = s
				rr.Summaries = append(rr.Summaries, s)
			}
			s.Instances++
			s.Seconds += ob.Seconds
			s.Solver[ob.Solver]++
			if ob.Status == "unsat" {
				s.Unsat++
			} else if s.Worst == nil || (ob.ReplayConfirmed && !s.Worst.ReplayConfirmed) || (ob.Status == "sat" && s.Worst.Status != "sat") {
				s.Worst = ob
			}
		}
	}
	for _, s := range rr.Summaries {
		switch {
		case s.Kind == "cover" && s.Unsat == s.Instances:
			s.Status = "vacuous"
		case s.Kind == "cover":
			s.Status = "covered"
		case s.Unsat == s.Instances:
			s.Status = "discharged"
		default:
			s.Status = "failed"
		}
	}
	rr.Wall = time.Since(t0).Seconds()
	return rr
}

func readKnown() []KnownFinding {
	var k []KnownFinding
	data, err := os.ReadFile(filepath.Join(verifRoot, "known_findings.json"))
	if err == nil {
		_ = json.Unmarshal(data, &k)
	}
	return k
}

var nameSan = regexp.MustCompile(`[^A-Za-z0-9_.-]+`)

type Failure struct {
	Name   string
	Reason string
	Sum    *OblSummary
}

func cmdCheck(args []string) {
	if len(args) < 1 {
		fmt.Fprintln(os.Stderr, "usage: govc check <id> [--thorough] [--record] [--replay path] [--mutant i]")
		os.Exit(2)
	}
	id := args[0]
	fs := flag.NewFlagSet("check", flag.ExitOnError)
	thorough := fs.Bool("thorough", false, "thorough tier")
	record := fs.Bool("record", false, "record the expected obligation set")
	replay := fs.String("replay", "", "replay file")
	mutant := fs.Int("mutant", -1, "internal: run canary i and report which obligations fail")
	nocanary := fs.Bool("nocanary", false, "skip canaries")
	fs.Parse(args[1:])
	if os.Getenv("VERIF_TIER") == "thorough" {
		*thorough = true
	}
	pc, err := loadProp(id)
	if err != nil {
		fmt.Fprintln(os.Stderr, "cannot load property config:", err)
		os.Exit(2)
	}
	timeout := 10
	if *thorough {
		timeout = 60
	}
	if *mutant >= 0 {
		runCanaryChild(pc, *mutant, timeout)
		return
	}
	if *replay != "" {
		doReplay(pc, *replay, timeout)
		return
	}
	t0 := time.Now()
	tier := "quick"
	if *thorough {
		tier = "thorough"
	}
	rr := runProperty(pc, nil, timeout, true, nil)
	if rr.BuildError != "" {
		fmt.Println("BUILD-ERROR:", rr.BuildError)
		writeEvidence(pc, tier, rr, nil, nil, nil, time.Since(t0).Seconds(), []string{"build error: no verdict"})
		os.Exit(2)
	}
	expPath := filepath.Join(verifRoot, "obligations", id+".json")
	if *record {
		var names []string
		for _, s := range rr.Summaries {
			if s.Status == "discharged" || s.Status == "covered" {
				names = append(names, s.Name)
			}
		}
		sort.Strings(names)
		data, _ := json.MarshalIndent(names, "", " ")
		os.MkdirAll(filepath.Dir(expPath), 0o755)
		os.WriteFile(expPath, data, 0o644)
		fmt.Printf("recorded %d obligation names in %s\n", len(names), expPath)
	}
	var expected []string
	if data, err := os.ReadFile(expPath); err == nil {
		_ = json.Unmarshal(data, &expected)
	}
	stretch := map[string]bool{}
	for _, s := range pc.Stretch {
		stretch[s] = true
	}
	// failures
	var fails []*Failure
	seenFail := map[string]bool{}
	addFail := func(name, reason string, s *OblSummary) {
		if seenFail[name] || stretch[name] {
			return
		}
		seenFail[name] = true
		fails = append(fails, &Failure{name, reason, s})
	}
	for _, r := range rr.Funcs {
		if r.Aborted != "" {
			addFail(r.Key+"#verify", "function could not be verified: "+r.Aborted, nil)
		}
		for _, be := range r.BindErrors {
			addFail(r.Key+"#bind", "contract no longer binds to the code: "+be, nil)
		}
	}
	for _, s := range rr.Summaries {
		switch s.Status {
		case "failed":
			addFail(s.Name, "obligation not discharged", s)
		case "vacuous":
			if strings.Contains(s.Name, ".cover_") {
				addFail(s.Name, "completeness probe: no feasible path reaches this call with the stated condition", s)
			} else {
				addFail(s.Name, "preconditions/axioms are contradictory (vacuous proof)", s)
			}
		}
	}
	for _, n := range expected {
		if _, ok := rr.ByName[n]; !ok {
			fn := strings.SplitN(n, "#", 2)[0]
			if seenFail[fn+"#verify"] {
				continue
			}
			addFail(n, "expected obligation is no longer generated (code or contract shape changed)", nil)
		}
	}
	// classify against known findings
	known := readKnown()
	var violations []*Failure
	var knownLines []string
	knownNames := map[string]bool{}
	for _, f := range fails {
		matched := false
		for _, k := range known {
			if k.Property == id && k.Status == "open" && k.Obligation == f.Name {
				knownLines = append(knownLines, fmt.Sprintf("KNOWN-FINDING: property=%s %s (%s)", id, k.What, k.Obligation))
				matched = true
				knownNames[f.Name] = true
			}
		}
		if !matched {
			violations = append(violations, f)
		}
	}
	// canaries (must-fail self test) run whenever there is no unexplained failure
	var canRun, canOK int
	var canNotes []string
	if !*nocanary && len(violations) == 0 {
		canRun, canOK, canNotes = runCanaries(pc, *thorough)
	}
	for n := range knownNames {
		stretch[n] = true // known findings are reported separately and not counted as claimed obligations
	}
	for _, l := range knownLines {
		fmt.Println(l)
	}
	exit := 0
	replayDir := filepath.Join(outRoot(), "replays", id)
	for _, v := range violations {
		os.MkdirAll(replayDir, 0o755)
		path := filepath.Join(replayDir, nameSan.ReplaceAllString(v.Name, "_")+".json")
		suffix := writeReplay(pc, path, v)
		fmt.Printf("VIOLATION property=%s replay=%s%s\n", id, path, suffix)
		fmt.Printf("  obligation %s: %s\n", v.Name, v.Reason)
		exit = 1
	}
	selftestBroken := canRun > 0 && canOK < canRun
	var extra []string
	extra = append(extra, canNotes...)
	pcEv := *pc
	for n := range knownNames {
		pcEv.Stretch = append(pcEv.Stretch, n)
	}
	extra = append(extra, knownLines...)
	writeEvidence(&pcEv, tier, rr, fails, violations, &canaryStats{canRun, canOK}, time.Since(t0).Seconds(), extra)
	// summary
	nObl, nDis := 0, 0
	for _, s := range rr.Summaries {
		if s.Kind == "cover" || stretch[s.Name] {
			continue
		}
		nObl += s.Instances
		nDis += s.Unsat
	}
	fmt.Printf("%s %s: %d functions, %d obligation instances, %d discharged, %d canaries (%d failed as expected), %.1fs\n", id, tier, len(rr.Funcs), nObl, nDis, canRun, canOK, time.Since(t0).Seconds())
	if exit == 0 && selftestBroken {
		fmt.Println("ENGINE-SELFTEST-FAILED: a must-fail canary was not detected; see evidence")
		for _, n := range canNotes {
			fmt.Println("  ", n)
		}
		os.Exit(3)
	}
	os.Exit(exit)
}

type canaryStats struct{ run, ok int }

// runCanaries applies each must-fail mutation in a child process and checks that a named obligation fails.
func runCanaries(pc *PropConfig, thorough bool) (run, ok int, notes []string) {
	type res struct {
		i    int
		out  string
		code int
	}
	var idxs []int
	for i, c := range pc.Canaries {
		if c.Thorough && !thorough {
			continue
		}
		idxs = append(idxs, i)
	}
	ch := make(chan res, len(idxs))
	sem := make(chan bool, 4)
	self, _ := os.Executable()
	for _, i := range idxs {
		i := i
		go func() {
			sem <- true
			defer func() { <-sem }()
			cmd := exec.Command(self, "check", pc.ID, "--mutant", fmt.Sprint(i))
			cmd.Env = append(os.Environ(), "GOVC_CANARY_CHILD=1")
			out, err := cmd.CombinedOutput()
			code := 0
			if err != nil {
				code = 1
				if ee, ok := err.(*exec.ExitError); ok {
					code = ee.ExitCode()
				}
			}
			ch <- res{i, string(out), code}
		}()
	}
	for range idxs {
		r := <-ch
		c := pc.Canaries[r.i]
		switch r.code {
		case 10: // detected
			run++
			ok++
		case 11: // pattern does not apply to the current tree: skipped
			notes = append(notes, fmt.Sprintf("canary %q skipped: pattern not found in current %s", c.Name, c.File))
		default:
			run++
			notes = append(notes, fmt.Sprintf("canary %q NOT detected (exit %d): %s", c.Name, r.code, lastLines(r.out, 3)))
		}
	}
	return
}

func lastLines(s string, n int) string {
	ls := strings.Split(strings.TrimSpace(s), "\n")
	if len(ls) > n {
		ls = ls[len(ls)-n:]
	}
	return strings.Join(ls, " | ")
}

func runCanaryChild(pc *PropConfig, i int, timeout int) {
	c := pc.Canaries[i]
	path := filepath.Join(repoRoot(), c.File)
	data, err := os.ReadFile(path)
	if err != nil || strings.Count(string(data), c.Old) != 1 {
		fmt.Println("pattern not applicable")
		os.Exit(11)
	}
	overlay := map[string][]byte{path: []byte(strings.Replace(string(data), c.Old, c.New, 1))}
	only := map[string]bool{}
	for _, e := range c.Expect {
		only[strings.SplitN(e, "#", 2)[0]] = true
	}
	rr := runProperty(pc, overlay, timeout, false, only)
	if rr.BuildError != "" {
		fmt.Println("mutant does not build:", rr.BuildError)
		os.Exit(12)
	}
	for _, e := range c.Expect {
		if s, ok := rr.ByName[e]; ok && (s.Status == "failed" || (s.Status == "vacuous" && strings.Contains(e, ".cover_"))) {
			fmt.Println("detected:", e)
			os.Exit(10)
		}
		// a function that can no longer be verified at all also counts as detection
		for _, r := range rr.Funcs {
			if strings.HasPrefix(e, r.Key+"#") && (r.Aborted != "" || len(r.BindErrors) > 0) {
				fmt.Println("detected (unverifiable):", e)
				os.Exit(10)
			}
		}
	}
	fmt.Println("not detected")
	os.Exit(13)
}

// ---------- replay files ----------

type ReplayFile struct {
	Property    string   `json:"property"`
	Obligation  string   `json:"obligation"`
	Reason      string   `json:"reason"`
	Clause      string   `json:"contract_clause,omitempty"`
	Function    string   `json:"function,omitempty"`
	Instances   int      `json:"instances,omitempty"`
	Undischarged int     `json:"undischarged_instances,omitempty"`
	SolverStatus string  `json:"solver_status,omitempty"`
	Solver      string   `json:"solver,omitempty"`
	SolverOutput string  `json:"solver_output,omitempty"`
	PathTrace   string   `json:"path_trace,omitempty"`
	Model       string   `json:"model,omitempty"`
	Inputs      map[string]string `json:"inputs,omitempty"`
	ReplayKind  string   `json:"replay_kind"`
	ReplayTranscript string `json:"replay_transcript,omitempty"`
	FailingInputFound bool `json:"failing_input_found"`
	Script      string   `json:"smt_script,omitempty"`
}

func writeReplay(pc *PropConfig, path string, f *Failure) string {
	rf := &ReplayFile{Property: pc.ID, Obligation: f.Name, Reason: f.Reason, ReplayKind: "none"}
	if f.Sum != nil {
		rf.Clause = f.Sum.Src
		rf.Function = strings.SplitN(f.Name, "#", 2)[0]
		rf.Instances = f.Sum.Instances
		rf.Undischarged = f.Sum.Instances - f.Sum.Unsat
		if w := f.Sum.Worst; w != nil {
			rf.SolverStatus, rf.Solver, rf.SolverOutput, rf.PathTrace, rf.Model = w.Status, w.Solver, w.Output, w.Trace, w.Model
			rf.Script = w.Script
			if len(rf.Script) > 300000 {
				rf.Script = rf.Script[:300000] + "\n; …truncated"
			}
			if w.Status == "sat" && w.Model != "" {
				tryScalarReplay(rf, w)
			}
		}
	}
	data, _ := json.MarshalIndent(rf, "", " ")
	os.WriteFile(path, data, 0o644)
	if rf.FailingInputFound {
		return ""
	}
	return " no-failing-input-found"
}

func doReplay(pc *PropConfig, path string, timeout int) {
	data, err := os.ReadFile(path)
	if err != nil {
		fmt.Fprintln(os.Stderr, err)
		os.Exit(2)
	}
	var rf ReplayFile
	if err := json.Unmarshal(data, &rf); err != nil {
		fmt.Fprintln(os.Stderr, err)
		os.Exit(2)
	}
	fn := strings.SplitN(rf.Obligation, "#", 2)[0]
	rr := runProperty(pc, nil, timeout, true, map[string]bool{fn: true})
	if rr.BuildError != "" {
		fmt.Println("BUILD-ERROR:", rr.BuildError)
		os.Exit(2)
	}
	s, ok := rr.ByName[rf.Obligation]
	if ok && s.Status == "discharged" {
		fmt.Printf("replay: obligation %s is discharged on the current tree\n", rf.Obligation)
		os.Exit(0)
	}
	f := &Failure{Name: rf.Obligation, Reason: "obligation not discharged", Sum: s}
	if !ok {
		f.Reason = "obligation not generated on the current tree"
	}
	suffix := writeReplay(pc, path, f)
	fmt.Printf("VIOLATION property=%s replay=%s%s\n", pc.ID, path, suffix)
	os.Exit(1)
}

// ---------- evidence ----------

func writeEvidence(pc *PropConfig, tier string, rr *RunResult, fails, violations []*Failure, cs *canaryStats, wall float64, extra []string) {
	stretch := map[string]bool{}
	for _, s := range pc.Stretch {
		stretch[s] = true
	}
	nObl, nDis := 0, 0
	byBackend := map[string]int{}
	var solverS float64
	var samples []map[string]interface{}
	var funcs []string
	var outOfReach []string
	stretchStatus := map[string]string{}
	assumed := map[string]bool{}
	notes := map[string]bool{}
	covers := 0
	for _, r := range rr.Funcs {
		funcs = append(funcs, fmt.Sprintf("%s (%d paths)", r.Key, r.Paths))
		if r.Aborted != "" {
			outOfReach = append(outOfReach, r.Key+": "+r.Aborted)
		}
		for _, a := range r.Assumed {
			assumed[a] = true
		}
		for _, n := range r.Notes {
			notes[n] = true
		}
	}
	for _, s := range rr.Summaries {
		if s.Kind == "cover" {
			covers++
			continue
		}
		if stretch[s.Name] {
			stretchStatus[s.Name] = s.Status
			continue
		}
		nObl += s.Instances
		nDis += s.Unsat
		solverS += s.Seconds
		for k, v := range s.Solver {
			byBackend[k] += v
		}
		if len(samples) < 12 {
			samples = append(samples, map[string]interface{}{"obligation": s.Name, "clause": s.Src, "instances": s.Instances, "status": s.Status})
		}
	}
	trusted := []string{
		"the VC generator /verif/govc and its Go semantics (DESIGN.md §1.3): SSA symbolic execution, Boogie-style heap, content-id byte strings",
		"golang.org/x/tools go/ssa lowering (NaiveForm) and go/types",
		"SMT solvers z3 5.1 (z3-new), z3 4.8.12, cvc5 1.0.3",
		"signed machine arithmetic treated as mathematical except in functions marked `checks ovf`; unsigned arithmetic and integer conversions are exact",
		"calls without contract: computed write set havocked, result unconstrained; listed per function under model_notes",
		"goroutines, channels beyond arrival-order havoc, OS, cryptographic hardness: not modelled",
	}
	var assumptions []string
	for a := range assumed {
		assumptions = append(assumptions, "axiom/assumed: "+a)
	}
	assumptions = append(assumptions, pc.Assumptions...)
	for _, nd := range pc.NotDecided {
		assumptions = append(assumptions, "not decided by this check: "+nd)
	}
	sort.Strings(assumptions)
	var noteList []string
	for n := range notes {
		noteList = append(noteList, n)
	}
	sort.Strings(noteList)
	if len(noteList) > 60 {
		noteList = append(noteList[:60], fmt.Sprintf("… %d more", len(noteList)-60))
	}
	cov := map[string]interface{}{
		"obligations":              nObl,
		"discharged":               nDis,
		"checker_cmd":              fmt.Sprintf("/verif/check %s%s", pc.ID, map[string]string{"quick": "", "thorough": " --thorough"}[tier]),
		"trusted_base":             trusted,
		"functions_under_contract": funcs,
		"files_with_bodies_read":   rr.BodyFiles,
		"by_backend":               byBackend,
		"solver_s":                 solverS,
		"samples":                  samples,
		"out_of_reach":             outOfReach,
		"stretch_lemmas":           stretchStatus,
		"bounded_standins":         pc.Bounded,
		"vacuity_probes":           covers,
		"model_notes":              noteList,
		"notes":                    extra,
	}
	if cs != nil {
		cov["canaries_run"] = cs.run
		cov["canaries_failed_as_expected"] = cs.ok
	}
	if rr.BuildError != "" {
		cov["obligations"], cov["discharged"] = 0, 0
		cov["explanation"] = "build error: " + rr.BuildError
	}
	var failNames []string
	for _, f := range fails {
		failNames = append(failNames, f.Name+": "+f.Reason)
	}
	cov["undischarged"] = failNames
	seed := 0
	fmt.Sscanf(os.Getenv("VERIF_SEED"), "%d", &seed)
	ev := map[string]interface{}{
		"property_id": pc.ID,
		"tier":        tier,
		"seed":        seed,
		"level":       "proof",
		"coverage":    cov,
		"assumptions": assumptions,
		"wall_s":      wall,
		"violations":  len(violations),
	}
	data, _ := json.MarshalIndent(ev, "", " ")
	os.MkdirAll(filepath.Join(outRoot(), "evidence"), 0o755)
	os.WriteFile(filepath.Join(outRoot(), "evidence", pc.ID+".json"), data, 0o644)
}

// repoRoot / outRoot: /repo and /verif, except for the seed matrix tool, which checks patched scratch copies of the
// repository in parallel and must not overwrite the committed evidence (GOVC_REPO, GOVC_OUT). The commands registered
// in MANIFEST.json never set these.
func repoRoot() string {
	if v := os.Getenv("GOVC_REPO"); v != "" {
		return v
	}
	return "/repo"
}

func outRoot() string {
	if v := os.Getenv("GOVC_OUT"); v != "" {
		return v
	}
	return verifRoot
}
