package main

import (
	"fmt"
	"regexp"
	"sort"
	"strings"

	"golang.org/x/tools/go/ssa"
)

// Two-state lemmas: `old(...)` refers to one arbitrary heap, everything else to another arbitrary heap.
// A lemma is proved once (optionally by induction on an integer parameter) and may then be used, as a
// universally quantified assumption, by functions whose contract says `uses <lemma>`.

type lemmaParts struct {
	symbols []string // "(name sort)" for every free symbol (parameters and both heaps' arrays)
	req     string
	ens     string
	apps    []string // spec function applications occurring in ens (triggers)
}

func newSpecState(si *specInst) *State {
	return &State{heap: map[string]string{}, ghost: map[string]*Value{}, cells: map[*Cell]*Value{}, promo: map[*Cell]string{}, written: map[string]bool{},
		wcells: map[*Cell]bool{}, boxes: map[string]*Value{}, iters: map[string]*mapIter{}, cut: map[*ssa.BasicBlock]bool{}, allocT: "alloc0", locks: "locks0", specHeap: si}
}

var sfAppRe = regexp.MustCompile(`\(sf_[A-Za-z0-9_]+ `)

// balancedFrom returns the s-expression starting at s[i] == '('.
func balancedFrom(s string, i int) string {
	d := 0
	inBar := false
	for j := i; j < len(s); j++ {
		switch s[j] {
		case '|':
			inBar = !inBar
		case '(':
			if !inBar {
				d++
			}
		case ')':
			if !inBar {
				d--
				if d == 0 {
					return s[i : j+1]
				}
			}
		}
	}
	return ""
}

// lemmaFormula evaluates the lemma's clauses over formal heaps; subst optionally replaces a parameter's term.
func (x *Exec) lemmaFormula(lem *Lemma, subst map[string]string, dropAll bool) *lemmaParts {
	cur := &specInst{name: "lemma", heapSort: map[string]string{}, prefix: "hp_"}
	old := &specInst{name: "lemma", heapSort: map[string]string{}, prefix: "hpo_"}
	st := newSpecState(cur)
	ost := newSpecState(old)
	lp := &lemmaParts{}
	names := map[string]*Value{}
	sf := &SpecFunc{Name: lem.Name, PkgPath: lem.PkgPath}
	for _, p := range lem.Params {
		pt := x.specParamType(sf, p.Type)
		k := 0
		v := mkValue(pt, func(l Leaf) string {
			nm := fmt.Sprintf("lp_%s_%d", p.Name, k)
			k++
			lp.symbols = append(lp.symbols, fmt.Sprintf("(%s %s)", nm, l.Sort))
			if s, ok := subst[p.Name]; ok && k == 1 {
				return strings.ReplaceAll(s, "$", nm)
			}
			return nm
		})
		names[p.Name] = v
	}
	env := &Env{x: x, st: st, old: ost, names: names, pkg: x.eng.typesPkg(lem.PkgPath), pkgPath: lem.PkgPath}
	var reqs, enss []string
	env.dropGuards = true
	for _, r := range lem.Requires {
		reqs = append(reqs, x.evalBool(env, r))
	}
	env.dropGuards = dropAll
	for _, en := range lem.Ensures {
		enss = append(enss, x.evalBool(env, en))
	}
	reqs = append(reqs, st.pc...)
	lp.req = smtAnd(reqs)
	lp.ens = smtAnd(enss)
	for _, si := range []*specInst{cur, old} {
		keys := append([]string(nil), si.heapKeys...)
		sort.Strings(keys)
		for _, k := range keys {
			nm := "|" + si.prefix + smtName(k) + "|"
			srt := si.heapSort[k]
			if strings.HasPrefix(k, "G|") {
				lp.symbols = append(lp.symbols, fmt.Sprintf("(%s %s)", nm, srt))
			} else if strings.HasPrefix(k, "E|") || strings.HasPrefix(k, "MD|") || strings.HasPrefix(k, "MV|") {
				lp.symbols = append(lp.symbols, fmt.Sprintf("(%s (Array Int (Array Int %s)))", nm, srt))
			} else {
				lp.symbols = append(lp.symbols, fmt.Sprintf("(%s (Array Int %s))", nm, srt))
			}
		}
	}
	seen := map[string]bool{}
	for _, loc := range sfAppRe.FindAllStringIndex(lp.ens, -1) {
		app := balancedFrom(lp.ens, loc[0])
		if app != "" && !seen[app] {
			seen[app] = true
			lp.apps = append(lp.apps, app)
		}
	}
	return lp
}

// lemmaAxiom: the lemma as a quantified assumption.
func (x *Exec) lemmaAxiom(lem *Lemma) string {
	lp := x.lemmaFormula(lem, nil, true)
	// applications of recursive (fuel-encoded) spec functions are generalised over their fuel, so that the
	// lemma also fires on the partially unfolded terms the solver creates
	for i, app := range lp.apps {
		name := app[1:strings.Index(app, " ")]
		if !x.recSpecs[name] {
			continue
		}
		fv := fmt.Sprintf("lfk%d", i)
		napp := "(" + name + "_f " + fv + app[len(name)+1:]
		lp.req = strings.ReplaceAll(lp.req, app, napp)
		lp.ens = strings.ReplaceAll(lp.ens, app, napp)
		lp.apps[i] = napp
		lp.symbols = append(lp.symbols, "("+fv+" Fuel)")
	}
	pat := ""
	if len(lp.apps) > 0 {
		pat = " :pattern (" + strings.Join(lp.apps, " ") + ")"
	}
	body := fmt.Sprintf("(=> %s %s)", lp.req, lp.ens)
	if pat != "" {
		body = fmt.Sprintf("(! %s%s)", body, pat)
	}
	return fmt.Sprintf("(forall (%s) %s)", strings.Join(lp.symbols, " "), body)
}

// ProveLemma generates the proof obligation(s) of a lemma.
func (e *Engine) ProveLemma(lem *Lemma) *FuncResult {
	key := pkgShort(lem.PkgPath) + ".lemma." + lem.Name
	res := &FuncResult{Key: key}
	x := newExec(e, nil, nil)
	x.fnKey = key
	defer func() {
		if r := recover(); r != nil {
			if ee, ok := r.(evalError); ok {
				res.Aborted = "lemma evaluation: " + ee.msg
				return
			}
			panic(r)
		}
	}()
	lp := x.lemmaFormula(lem, nil, false)
	st := newSpecState(nil)
	for _, s := range lp.symbols {
		st.decls = append(st.decls, "(declare-const "+strings.TrimSuffix(strings.TrimPrefix(s, "("), ")")+")")
	}
	st.assume(lp.req)
	if lem.Induct != "" {
		ih := x.lemmaFormula(lem, map[string]string{lem.Induct: "(- $ 1)"}, true)
		st.assume(fmt.Sprintf("(=> (>= lp_%s_0 1) (=> %s %s))", lem.Induct, ih.req, ih.ens))
	}
	st.frames = []*Frame{{regs: map[ssa.Value]*Value{}}}
	cov := &Obligation{Name: key + "#cover:requires", Func: key, Kind: "cover", Src: "lemma hypotheses are satisfiable", Goal: "false"}
	cov.Script = x.script(st, "false")
	x.obls = append(x.obls, cov)
	src := ""
	for _, en := range lem.Ensures {
		src += en.Src + "; "
	}
	x.emit(st, "lemma", "lemma", src, lp.ens)
	res.Obls = x.obls
	res.BindErrors = x.bindErrors
	return res
}
