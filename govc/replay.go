package main

import (
	"context"
	"fmt"
	"go/types"
	"os"
	"os/exec"
	"path/filepath"
	"regexp"
	"strings"
	"time"

	"golang.org/x/tools/go/ssa"
)

// Replay of solver counterexamples against the real code.
//
// Scalar functions (no receiver, all parameters and results integers or booleans): fully automatic.
// The model's inputs are passed to the real function in an in-package test injected with `go test -overlay`
// (nothing is written into /repo); the violated clause is then evaluated on (inputs, real outputs).

var modelValRe = regexp.MustCompile(`\(define-fun\s+(\|?[^\s|]+\|?)\s+\(\)\s+(Int|Bool)\s+((?:\(-\s*\d+\))|(?:-?\d+)|true|false)\)`)

func parseModel(model string) map[string]string {
	out := map[string]string{}
	flat := strings.Join(strings.Fields(model), " ")
	for _, m := range modelValRe.FindAllStringSubmatch(flat, -1) {
		v := m[3]
		if strings.HasPrefix(v, "(-") {
			v = "-" + strings.TrimSpace(strings.Trim(v[2:], "() "))
		}
		out[strings.Trim(m[1], "|")] = v
	}
	return out
}

func isScalarType(t types.Type) bool {
	b, ok := t.Underlying().(*types.Basic)
	if !ok {
		return false
	}
	return b.Info()&(types.IsInteger|types.IsBoolean) != 0
}

func scalarFunc(fn *ssa.Function) bool {
	if fn == nil || fn.Signature.Recv() != nil || fn.Parent() != nil {
		return false
	}
	sig := fn.Signature
	for i := 0; i < sig.Params().Len(); i++ {
		if !isScalarType(sig.Params().At(i).Type()) {
			return false
		}
	}
	if sig.Results().Len() == 0 {
		return false
	}
	for i := 0; i < sig.Results().Len(); i++ {
		if !isScalarType(sig.Results().At(i).Type()) {
			return false
		}
	}
	return true
}

// replayScalar runs the real function on the model's inputs and re-evaluates the clause.
func (e *Engine) replayScalar(ob *Obligation) {
	fn, cl := ob.Fn, ob.Clause
	if fn == nil || cl == nil || ob.Model == "" || !scalarFunc(fn) || ob.Kind != "post" {
		return
	}
	vals := parseModel(ob.Model)
	sig := fn.Signature
	inputs := map[string]string{}
	var argLits []string
	for i := 0; i < sig.Params().Len(); i++ {
		p := sig.Params().At(i)
		var v string
		found := false
		for k, val := range vals {
			if strings.HasPrefix(k, "in_"+smtName(p.Name())+"!") {
				v, found = val, true
			}
		}
		if !found {
			v = "0" // unconstrained by the model
			if sortOf(p.Type()) == "Bool" {
				v = "false"
			}
		}
		inputs[p.Name()] = v
		tn := types.TypeString(p.Type(), func(pk *types.Package) string { return "" })
		if sortOf(p.Type()) == "Bool" {
			argLits = append(argLits, v)
		} else {
			argLits = append(argLits, fmt.Sprintf("%s(%s)", strings.TrimPrefix(tn, "."), v))
		}
	}
	ob.ReplayInputs = inputs
	dir, err := os.MkdirTemp("", "govc-replay-")
	if err != nil {
		return
	}
	defer os.RemoveAll(dir)
	pkgDir := filepath.Join(e.repo, strings.TrimPrefix(fn.Pkg.Pkg.Path(), modulePath+"/"))
	var rv []string
	for i := 0; i < sig.Results().Len(); i++ {
		rv = append(rv, fmt.Sprintf("r%d", i))
	}
	test := fmt.Sprintf(`package %s

import (
	"fmt"
	"testing"
)

func TestZZVerifReplay(t *testing.T) {
	defer func() {
		if r := recover(); r != nil {
			fmt.Println("REPLAY-PANIC:", r)
		}
	}()
	%s := %s(%s)
	fmt.Println("REPLAY-RESULT:", %s)
}
`, fn.Pkg.Pkg.Name(), strings.Join(rv, ", "), fn.Name(), strings.Join(argLits, ", "), strings.Join(rv, ", "))
	tf := filepath.Join(dir, "zz_verif_replay_test.go")
	os.WriteFile(tf, []byte(test), 0o644)
	ov := filepath.Join(dir, "ov.json")
	os.WriteFile(ov, []byte(fmt.Sprintf(`{"Replace":{%q:%q}}`, filepath.Join(pkgDir, "zz_verif_replay_test.go"), tf)), 0o644)
	ctx, cancel := context.WithTimeout(context.Background(), 180*time.Second)
	defer cancel()
	cmd := exec.CommandContext(ctx, "go", "test", "-overlay", ov, "-vet=off", "-count=1", "-timeout", "60s", "-run", "^TestZZVerifReplay$", ".")
	cmd.Dir = pkgDir
	cmd.Env = append(os.Environ(), "GOFLAGS=-mod=mod", "GOPROXY=off", "GOSUMDB=off", "GOTOOLCHAIN=local")
	out, _ := cmd.CombinedOutput()
	ob.ReplayTranscript = trimOut(string(out))
	var results []string
	for _, l := range strings.Split(string(out), "\n") {
		if strings.HasPrefix(l, "REPLAY-RESULT:") {
			results = strings.Fields(strings.TrimPrefix(l, "REPLAY-RESULT:"))
		}
	}
	if len(results) != sig.Results().Len() {
		return
	}
	// evaluate the clause on the concrete inputs and real outputs
	x := newExec(e, fn, ob.FC)
	st := &State{cells: map[*Cell]*Value{}, promo: map[*Cell]string{}, heap: map[string]string{}, ghost: map[string]*Value{},
		cut: map[*ssa.BasicBlock]bool{}, written: map[string]bool{}, wcells: map[*Cell]bool{}, boxes: map[string]*Value{}, iters: map[string]*mapIter{},
		allocT: "alloc0", locks: "locks0"}
	st.frames = []*Frame{{fn: fn, regs: map[ssa.Value]*Value{}}}
	lit := func(v string) string {
		if strings.HasPrefix(v, "-") {
			return "(- " + v[1:] + ")"
		}
		return v
	}
	names := map[string]*Value{}
	for i := 0; i < sig.Params().Len(); i++ {
		p := sig.Params().At(i)
		names[p.Name()] = leaf(p.Type(), lit(inputs[p.Name()]))
	}
	var res []*Value
	for i, r := range results {
		res = append(res, leaf(sig.Results().At(i).Type(), lit(r)))
	}
	bindResults(names, sig, res)
	env := &Env{x: x, st: st, old: st, names: names, pkg: fn.Pkg.Pkg, pkgPath: fn.Pkg.Pkg.Path()}
	g := x.evalBool(env, cl)
	probe := &Obligation{Script: x.script(st, g)}
	dir2, _ := os.MkdirTemp("", "govc-rp-")
	defer os.RemoveAll(dir2)
	solveOne(probe, dir2, 10, false)
	ob.ReplayTranscript += fmt.Sprintf("\nclause %q on inputs %v with real outputs %v: %s", cl.Src, inputs, results,
		map[string]string{"sat": "VIOLATED by the real code", "unsat": "holds on the real code (model came from an abstraction)"}[probe.Status])
	if probe.Status == "sat" {
		ob.ReplayConfirmed = true
	}
}

func tryScalarReplay(rf *ReplayFile, w *Obligation) {
	rf.Inputs = w.ReplayInputs
	rf.ReplayTranscript = w.ReplayTranscript
	if w.ReplayTranscript != "" {
		rf.ReplayKind = "scalar: real function called with the model's inputs (go test -overlay)"
	}
	rf.FailingInputFound = w.ReplayConfirmed
}
