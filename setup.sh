#!/bin/bash
# Builds the VC generator offline (x/tools v0.29.0 from the module cache).
set -e
export GOFLAGS=-mod=mod GOPROXY=off GOSUMDB=off GOTOOLCHAIN=local
mkdir -p /verif/bin
cd /verif/govc && go build -o /verif/bin/govc .
