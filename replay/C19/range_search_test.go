package kv

import (
	"context"
	"testing"

	"github.com/stretchr/testify/require"
	db "github.com/tendermint/tm-db"

	abci "github.com/tendermint/tendermint/abci/types"
	"github.com/tendermint/tendermint/libs/pubsub/query"
)

// Replays of the two known findings about range construction (state/indexer.LookForRanges and the bound values).
func TestReplayC19RangeSearch(t *testing.T) {
	indexer := NewTxIndex(db.NewMemDB())
	txResult := txResultWithEvents([]abci.Event{
		{Type: "account", Attributes: []abci.EventAttribute{{Key: []byte("number"), Value: []byte("5"), Index: true}}},
	})
	require.NoError(t, indexer.Index(txResult))
	ctx := context.Background()

	// F-C19-2: two lower bounds on one key: the later one overwrites the earlier one
	res, err := indexer.Search(ctx, query.MustParse("account.number > 7 AND account.number > 3"))
	require.NoError(t, err)
	if len(res) != 0 {
		t.Errorf("F-C19-2: 'account.number > 7 AND account.number > 3' returned %d result(s) for a transaction with account.number = 5", len(res))
	}
	// F-C19-3: an exclusive bound at the extreme wraps around
	res, err = indexer.Search(ctx, query.MustParse("account.number > 9223372036854775807"))
	require.NoError(t, err)
	if len(res) != 0 {
		t.Errorf("F-C19-3: 'account.number > 9223372036854775807' returned %d result(s)", len(res))
	}
}
