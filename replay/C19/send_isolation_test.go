package pubsub_test

import (
	"context"
	"testing"
	"time"

	"github.com/tendermint/tendermint/libs/log"
	"github.com/tendermint/tendermint/libs/pubsub"
	"github.com/tendermint/tendermint/libs/pubsub/query"
)

// Replay of F-C19-1: a subscriber whose query matches misses the event because ANOTHER subscriber's numeric
// comparison meets a non-numeric attribute value and dispatch stops there (map order decides who is served first,
// so the scenario is repeated).
func TestReplayC19SendIsolation(t *testing.T) {
	for i := 0; i < 200; i++ {
		s := pubsub.NewServer()
		s.SetLogger(log.NewNopLogger())
		if err := s.Start(); err != nil {
			t.Fatal(err)
		}
		ctx := context.Background()
		good, err := s.Subscribe(ctx, "good", query.MustParse("tm.events.type='NewBlock'"), 1)
		if err != nil {
			t.Fatal(err)
		}
		if _, err := s.Subscribe(ctx, "other", query.MustParse("acct.bal > 5"), 1); err != nil {
			t.Fatal(err)
		}
		_ = s.PublishWithEvents(ctx, "block", map[string][]string{"tm.events.type": {"NewBlock"}, "acct.bal": {"notanumber"}})
		select {
		case <-good.Out():
		case <-time.After(300 * time.Millisecond):
			_ = s.Stop()
			t.Fatalf("run %d: the subscriber with a matching query did not get the event", i)
		}
		_ = s.Stop()
	}
}
