package rpc

import (
	"context"
	"testing"

	"github.com/stretchr/testify/mock"
	"github.com/stretchr/testify/require"

	lcmocks "github.com/tendermint/tendermint/light/rpc/mocks"
	rpcmocks "github.com/tendermint/tendermint/rpc/client/mocks"
	ctypes "github.com/tendermint/tendermint/rpc/core/types"
	"github.com/tendermint/tendermint/types"
)

// Replay of F-C20-3 (obligation rpc.Client.TxSearch#post:bound): transactions returned by a search with prove=true
// carry inclusion proofs, but nothing was checked: a transaction that is in no block came back as a proven result.
func TestReplayC20TxSearchUnverified(t *testing.T) {
	txs := types.Txs{types.Tx("genuine-1"), types.Tx("genuine-2")}
	h := int64(4)
	forged := types.Tx("forged")
	forgedProof := types.Txs{forged}.Proof(0) // proves membership in a block that does not exist

	next := &rpcmocks.Client{}
	next.On("TxSearch", mock.Anything, mock.Anything, true, mock.Anything, mock.Anything, mock.Anything).Return(&ctypes.ResultTxSearch{
		Txs:        []*ctypes.ResultTx{{Hash: forged.Hash(), Height: h, Tx: forged, Proof: forgedProof}},
		TotalCount: 1,
	}, nil)
	lc := &lcmocks.LightClient{}
	lc.On("VerifyLightBlockAtHeight", mock.Anything, h, mock.Anything).Return(&types.LightBlock{
		SignedHeader: &types.SignedHeader{Header: &types.Header{Height: h, DataHash: txs.Hash()}},
	}, nil)

	_, err := NewClient(next, lc).TxSearch(context.Background(), "tx.height=4", true, nil, nil, "asc")
	require.Error(t, err, "a transaction with a proof that does not verify against the trusted data hash was relayed")

	// honest results are relayed
	next2 := &rpcmocks.Client{}
	next2.On("TxSearch", mock.Anything, mock.Anything, true, mock.Anything, mock.Anything, mock.Anything).Return(&ctypes.ResultTxSearch{
		Txs:        []*ctypes.ResultTx{{Hash: txs[0].Hash(), Height: h, Tx: txs[0], Proof: txs.Proof(0)}, {Hash: txs[1].Hash(), Height: h, Index: 1, Tx: txs[1], Proof: txs.Proof(1)}},
		TotalCount: 2,
	}, nil)
	res, err := NewClient(next2, lc).TxSearch(context.Background(), "tx.height=4", true, nil, nil, "asc")
	require.NoError(t, err)
	require.Len(t, res.Txs, 2)
}
