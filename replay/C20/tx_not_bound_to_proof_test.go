package rpc

import (
	"context"
	"testing"

	"github.com/stretchr/testify/mock"
	"github.com/stretchr/testify/require"

	lcmocks "github.com/tendermint/tendermint/light/rpc/mocks"
	rpcmocks "github.com/tendermint/tendermint/rpc/client/mocks"
	ctypes "github.com/tendermint/tendermint/rpc/core/types"
	"github.com/tendermint/tendermint/types"
)

// Replay of F-C20-2 (obligation rpc.Client.Tx#post:bound): the node answers a proven tx query with a VALID inclusion
// proof of some transaction of the block, but puts different bytes into the Tx field it returns. The proof verifies
// against the trusted data hash, and the forged transaction is relayed as proven.
func TestReplayC20TxNotBoundToProof(t *testing.T) {
	txs := types.Txs{types.Tx("genuine-1"), types.Tx("genuine-2"), types.Tx("genuine-3")}
	h := int64(9)
	proof := txs.Proof(1)
	forged := types.Tx("forged transaction that is in no block")

	next := &rpcmocks.Client{}
	next.On("Tx", mock.Anything, mock.Anything, true).Return(&ctypes.ResultTx{
		Hash:   forged.Hash(),
		Height: h,
		Index:  1,
		Tx:     forged,
		Proof:  proof,
	}, nil)
	lc := &lcmocks.LightClient{}
	lc.On("VerifyLightBlockAtHeight", mock.Anything, h, mock.Anything).Return(&types.LightBlock{
		SignedHeader: &types.SignedHeader{Header: &types.Header{Height: h, DataHash: txs.Hash()}},
	}, nil)

	res, err := NewClient(next, lc).Tx(context.Background(), forged.Hash(), true)
	if err == nil {
		require.Equal(t, []byte(res.Proof.Data), []byte(res.Tx), "a transaction that is not the proven one was relayed as proven")
	}

	// the honest answer is relayed
	next2 := &rpcmocks.Client{}
	next2.On("Tx", mock.Anything, mock.Anything, true).Return(&ctypes.ResultTx{
		Hash: txs[1].Hash(), Height: h, Index: 1, Tx: txs[1], Proof: proof,
	}, nil)
	res, err = NewClient(next2, lc).Tx(context.Background(), txs[1].Hash(), true)
	require.NoError(t, err)
	require.Equal(t, []byte(txs[1]), []byte(res.Tx))
}
