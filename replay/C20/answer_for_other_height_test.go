package rpc

import (
	"context"
	"testing"

	"github.com/stretchr/testify/mock"
	"github.com/stretchr/testify/require"

	lcmocks "github.com/tendermint/tendermint/light/rpc/mocks"
	rpcmocks "github.com/tendermint/tendermint/rpc/client/mocks"
	ctypes "github.com/tendermint/tendermint/rpc/core/types"
	"github.com/tendermint/tendermint/types"
)

// Replay of F-C20-6 (obligation rpc.Client.ConsensusParams#post:asked): the node answers a query for height 5 with
// the (genuine) consensus parameters of height 9. They match the light-verified header of height 9, so they were
// relayed as the answer for height 5 - state sync builds its state from exactly this call.
func TestReplayC20AnswerForOtherHeight(t *testing.T) {
	asked, other := int64(5), int64(9)
	params := *types.DefaultConsensusParams()
	params.Block.MaxGas = 12345

	next := &rpcmocks.Client{}
	next.On("ConsensusParams", mock.Anything, &asked).Return(&ctypes.ResultConsensusParams{BlockHeight: other, ConsensusParams: params}, nil)
	lc := &lcmocks.LightClient{}
	lc.On("VerifyLightBlockAtHeight", mock.Anything, other, mock.Anything).Return(&types.LightBlock{
		SignedHeader: &types.SignedHeader{Header: &types.Header{Height: other, ConsensusHash: types.HashConsensusParams(params)}},
	}, nil)

	res, err := NewClient(next, lc).ConsensusParams(context.Background(), &asked)
	t.Logf("err=%v", err)
	if err == nil {
		require.Equal(t, asked, res.BlockHeight, "consensus parameters of another height relayed as the answer")
	}
}
