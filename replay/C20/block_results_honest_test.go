package rpc

import (
	"context"
	"testing"

	"github.com/stretchr/testify/mock"
	"github.com/stretchr/testify/require"

	abci "github.com/tendermint/tendermint/abci/types"
	lcmocks "github.com/tendermint/tendermint/light/rpc/mocks"
	rpcmocks "github.com/tendermint/tendermint/rpc/client/mocks"
	ctypes "github.com/tendermint/tendermint/rpc/core/types"
	"github.com/tendermint/tendermint/types"
)

// Replay of F-C20-1 (obligation rpc.Client.BlockResults#post:bound): an honest full node answers block_results for
// height h with the DeliverTx results whose hash the header at h+1 commits to (LastResultsHash =
// types.NewResults(DeliverTxs).Hash(), see state.ABCIResponsesResultsHash). The verifying client must relay it.
func TestReplayC20BlockResultsHonestNode(t *testing.T) {
	txResults := []*abci.ResponseDeliverTx{{Code: 0, Data: []byte("a")}, {Code: 1, Data: []byte("b"), GasUsed: 7}}
	h := int64(5)

	next := &rpcmocks.Client{}
	next.On("BlockResults", mock.Anything, mock.Anything).Return(&ctypes.ResultBlockResults{
		Height:           h,
		TxsResults:       txResults,
		BeginBlockEvents: []abci.Event{{Type: "begin"}},
		EndBlockEvents:   []abci.Event{{Type: "end"}},
	}, nil)

	lc := &lcmocks.LightClient{}
	lc.On("VerifyLightBlockAtHeight", mock.Anything, h+1, mock.Anything).Return(&types.LightBlock{
		SignedHeader: &types.SignedHeader{Header: &types.Header{
			Height:          h + 1,
			LastResultsHash: types.NewResults(txResults).Hash(), // what an honest chain commits to
		}},
	}, nil)

	c := NewClient(next, lc)
	res, err := c.BlockResults(context.Background(), &h)
	require.NoError(t, err, "block results of an honest node rejected")
	require.Equal(t, h, res.Height)

	// and results that differ from what the header commits to are refused
	next2 := &rpcmocks.Client{}
	next2.On("BlockResults", mock.Anything, mock.Anything).Return(&ctypes.ResultBlockResults{
		Height:     h,
		TxsResults: []*abci.ResponseDeliverTx{{Code: 0, Data: []byte("forged")}},
	}, nil)
	_, err = NewClient(next2, lc).BlockResults(context.Background(), &h)
	require.Error(t, err)
}
