package rpc

import (
	"context"
	"testing"

	"github.com/stretchr/testify/mock"
	"github.com/stretchr/testify/require"

	lcmocks "github.com/tendermint/tendermint/light/rpc/mocks"
	rpcmocks "github.com/tendermint/tendermint/rpc/client/mocks"
	"github.com/tendermint/tendermint/types"
)

// Replay of F-C20-5 (obligations rpc.Client.Commit#nonnil, rpc.Client.Validators#nonnil): light.Client.Update returns
// (nil, nil) when the light client is already at the primary's latest height. Asking the verifying client for the
// latest commit / validator set (height == nil) then dereferenced a nil light block instead of answering from the
// latest trusted block.
func TestReplayC20LatestWhenUpToDate(t *testing.T) {
	latest := &types.LightBlock{
		SignedHeader: &types.SignedHeader{Header: &types.Header{Height: 7}, Commit: &types.Commit{Height: 7}},
		ValidatorSet: types.NewValidatorSet(nil),
	}
	lc := &lcmocks.LightClient{}
	lc.On("Update", mock.Anything, mock.Anything).Return(nil, nil) // nothing newer than what is trusted
	lc.On("TrustedLightBlock", int64(0)).Return(latest, nil)
	c := NewClient(&rpcmocks.Client{}, lc)

	require.NotPanics(t, func() {
		res, err := c.Commit(context.Background(), nil)
		require.NoError(t, err)
		require.Equal(t, int64(7), res.Height)
	}, "latest commit requested while the light client is up to date")
	require.NotPanics(t, func() {
		res, err := c.Validators(context.Background(), nil, nil, nil)
		require.NoError(t, err)
		require.Equal(t, int64(7), res.BlockHeight)
	}, "latest validators requested while the light client is up to date")
}
