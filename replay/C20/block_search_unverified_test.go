package rpc

import (
	"context"
	"testing"

	"github.com/stretchr/testify/mock"
	"github.com/stretchr/testify/require"

	lcmocks "github.com/tendermint/tendermint/light/rpc/mocks"
	rpcmocks "github.com/tendermint/tendermint/rpc/client/mocks"
	ctypes "github.com/tendermint/tendermint/rpc/core/types"
	"github.com/tendermint/tendermint/types"
)

// Replay of F-C20-4 (obligation rpc.Client.BlockSearch#post:bound): blocks returned by a search were relayed without
// any comparison with light-verified headers.
func TestReplayC20BlockSearchUnverified(t *testing.T) {
	h := int64(3)
	lastCommit := &types.Commit{Height: h - 1, BlockID: types.BlockID{Hash: make([]byte, 32), PartSetHeader: types.PartSetHeader{Total: 1, Hash: make([]byte, 32)}},
		Signatures: []types.CommitSig{{BlockIDFlag: types.BlockIDFlagAbsent}}}
	forged := types.MakeBlock(h, []types.Tx{types.Tx("forged")}, lastCommit, nil)
	forged.ChainID = "test"
	forged.ValidatorsHash, forged.NextValidatorsHash, forged.ConsensusHash = make([]byte, 32), make([]byte, 32), make([]byte, 32)
	forged.ProposerAddress = make([]byte, 20)
	forged.LastBlockID = lastCommit.BlockID
	forged.Version.Block = 11
	require.NoError(t, forged.ValidateBasic())
	ps := forged.MakePartSet(types.BlockPartSizeBytes)
	bid := types.BlockID{Hash: forged.Hash(), PartSetHeader: ps.Header()}

	next := &rpcmocks.Client{}
	next.On("BlockSearch", mock.Anything, mock.Anything, mock.Anything, mock.Anything, mock.Anything).Return(&ctypes.ResultBlockSearch{
		Blocks: []*ctypes.ResultBlock{{BlockID: bid, Block: forged}}, TotalCount: 1,
	}, nil)
	// the chain's real header at that height is a different one
	lc := &lcmocks.LightClient{}
	lc.On("VerifyLightBlockAtHeight", mock.Anything, h, mock.Anything).Return(&types.LightBlock{
		SignedHeader: &types.SignedHeader{Header: &types.Header{Height: h, ChainID: "test", DataHash: []byte("other")}},
	}, nil)

	_, err := NewClient(next, lc).BlockSearch(context.Background(), "block.height=3", nil, nil, "asc")
	require.Error(t, err, "a block that does not match the light-verified header at its height was relayed")
}
