package types

import (
	"testing"
	"time"

	"github.com/stretchr/testify/require"
)

// Replay of F-C13-1 (obligation blockchain/v0.BlockchainReactor.poolRoutine#atcall:BlockStore.SaveBlock.fullcommit):
// block sync stored second.LastCommit as the SEEN COMMIT of the block it just accepted after checking it with
// VerifyCommitLight only. VerifyCommitLight stops at the first +2/3 of the power, so a peer can append garbage
// signatures behind a valid prefix. The commit below is accepted by VerifyCommitLight for the block id, yet
// CommitToVoteSet - what consensus runs on the stored seen commit when it takes over (reconstructLastCommit) -
// panics on it: the node crashes when it switches to consensus, and again at every restart.
func TestReplayC13SeenCommitVerifiedLightOnly(t *testing.T) {
	height := int64(7)
	blockID := makeBlockIDRandom()
	voteSet, valSet, vals := randVoteSet(height, 0, 2 /* precommit */, 4, 10)
	commit, err := MakeCommit(blockID, height, 0, voteSet, vals, time.Now())
	require.NoError(t, err)
	require.NoError(t, valSet.VerifyCommit(chainID2(voteSet), blockID, height, commit))

	// a byzantine peer corrupts the LAST signature: the first three carry 30 of 40 > 2/3
	bad := commit.Signatures[3].Signature
	commit.Signatures[3].Signature = append([]byte{bad[0] ^ 0xff}, bad[1:]...)

	require.NoError(t, valSet.VerifyCommitLight(chainID2(voteSet), blockID, height, commit), "what block sync checks")
	require.Error(t, valSet.VerifyCommit(chainID2(voteSet), blockID, height, commit), "full verification rejects it")
	require.NotPanics(t, func() { CommitToVoteSet(chainID2(voteSet), commit, valSet) },
		"the commit block sync stores as seen commit makes consensus start-up panic")
}

func chainID2(vs *VoteSet) string { return vs.ChainID() }
