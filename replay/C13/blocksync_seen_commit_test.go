package v0

import (
	"os"
	"testing"
	"time"

	"github.com/stretchr/testify/require"

	dbm "github.com/tendermint/tm-db"

	cfg "github.com/tendermint/tendermint/config"
	"github.com/tendermint/tendermint/libs/log"
	"github.com/tendermint/tendermint/mempool/mock"
	"github.com/tendermint/tendermint/p2p"
	"github.com/tendermint/tendermint/proxy"
	sm "github.com/tendermint/tendermint/state"
	"github.com/tendermint/tendermint/store"
	"github.com/tendermint/tendermint/types"
)

// replayReactor builds a block-sync reactor on a 4-validator chain with `height` blocks. When corruptTip is set, the
// LastCommit inside the tip block keeps three valid signatures (more than 2/3 of the power) and a corrupted fourth:
// what a byzantine peer serves.
func replayReactor(t *testing.T, genDoc *types.GenesisDoc, privVals []types.PrivValidator, height int64, corruptTip bool) BlockchainReactorPair {
	app := &testApp{}
	proxyApp := proxy.NewAppConns(proxy.NewLocalClientCreator(app))
	require.NoError(t, proxyApp.Start())
	blockStore := store.NewBlockStore(dbm.NewMemDB())
	stateStore := sm.NewStore(dbm.NewMemDB(), sm.StoreOptions{})
	state, err := stateStore.LoadFromDBOrGenesisDoc(genDoc)
	require.NoError(t, err)
	require.NoError(t, stateStore.Save(state))
	blockExec := sm.NewBlockExecutor(stateStore, log.NewNopLogger(), proxyApp.Consensus(), mock.Mempool{}, sm.EmptyEvidencePool{})

	for h := int64(1); h <= height; h++ {
		lastCommit := types.NewCommit(h-1, 0, types.BlockID{}, nil)
		if h > 1 {
			meta := blockStore.LoadBlockMeta(h - 1)
			sigs := make([]types.CommitSig, len(privVals))
			for _, pv := range privVals {
				vote, err := types.MakeVote(h-1, meta.BlockID, state.LastValidators, pv, genDoc.ChainID, time.Now())
				require.NoError(t, err)
				sigs[vote.ValidatorIndex] = vote.CommitSig()
			}
			lastCommit = types.NewCommit(h-1, 0, meta.BlockID, sigs)
		}
		tip := h == height && corruptTip
		if tip {
			last := len(lastCommit.Signatures) - 1
			sig := append([]byte{}, lastCommit.Signatures[last].Signature...)
			sig[0] ^= 0xff
			lastCommit.Signatures[last].Signature = sig
		}
		block := makeBlock(h, state, lastCommit)
		parts := block.MakePartSet(types.BlockPartSizeBytes)
		if !tip { // the serving node itself cannot execute the forged tip; it only stores and serves it
			state, _, err = blockExec.ApplyBlock(state, types.BlockID{Hash: block.Hash(), PartSetHeader: parts.Header()}, block)
			require.NoError(t, err)
		}
		blockStore.SaveBlock(block, parts, lastCommit)
	}
	st := state.Copy()
	st.LastBlockHeight = blockStore.Height() // the byzantine node pretends to have executed its forged tip
	r := NewBlockchainReactor(st, blockExec, blockStore, true)
	r.SetLogger(log.NewNopLogger())
	return BlockchainReactorPair{r, proxyApp}
}

// Replay of F-C13-1: whatever block sync stores as the seen commit of a block must let consensus start, i.e. every
// signature in it must verify (consensus rebuilds its LastCommit vote set from it and panics otherwise).
func TestReplayC13BlockSyncSeenCommit(t *testing.T) {
	config = cfg.ResetTestRoot("replay_c13")
	defer os.RemoveAll(config.RootDir)
	genDoc, privVals := randGenesisDoc(4, false, 10)

	pairs := []BlockchainReactorPair{
		replayReactor(t, genDoc, privVals, 3, true), // byzantine peer: tip block 3 carries the doctored commit for block 2
		replayReactor(t, genDoc, privVals, 0, false),
	}
	p2p.MakeConnectedSwitches(config.P2P, 2, func(i int, s *p2p.Switch) *p2p.Switch {
		s.AddReactor("BLOCKCHAIN", pairs[i].reactor)
		return s
	}, p2p.Connect2Switches)
	defer func() {
		for _, r := range pairs {
			_ = r.reactor.Stop()
			_ = r.app.Stop()
		}
	}()

	syncing := pairs[1].reactor
	deadline := time.Now().Add(8 * time.Second)
	for time.Now().Before(deadline) && syncing.store.Height() < 2 {
		time.Sleep(20 * time.Millisecond)
	}
	for h := int64(1); h <= syncing.store.Height(); h++ {
		seen := syncing.store.LoadSeenCommit(h)
		meta := syncing.store.LoadBlockMeta(h)
		require.NotNil(t, seen)
		state, err := sm.NewStore(dbm.NewMemDB(), sm.StoreOptions{}).LoadFromDBOrGenesisDoc(genDoc)
		require.NoError(t, err)
		require.NoError(t, state.Validators.VerifyCommit(genDoc.ChainID, meta.BlockID, h, seen),
			"block sync stored a seen commit for height %d that does not fully verify", h)
		require.NotPanics(t, func() { types.CommitToVoteSet(genDoc.ChainID, seen, state.Validators) },
			"consensus cannot start from the seen commit block sync stored for height %d", h)
	}
}
