package light_test

import (
	"context"
	"testing"
	"time"

	"github.com/stretchr/testify/require"
	dbm "github.com/tendermint/tm-db"

	"github.com/tendermint/tendermint/libs/log"
	"github.com/tendermint/tendermint/light"
	"github.com/tendermint/tendermint/light/provider"
	mockp "github.com/tendermint/tendermint/light/provider/mock"
	dbs "github.com/tendermint/tendermint/light/store/db"
	"github.com/tendermint/tendermint/types"
)

// forgeFirst serves a forged block the FIRST time a height is requested and the genuine chain afterwards.
type forgeFirst struct {
	*mockp.Mock
	forged map[int64]*types.LightBlock
	asked  map[int64]bool
}

func (p *forgeFirst) LightBlock(ctx context.Context, h int64) (*types.LightBlock, error) {
	if lb, ok := p.forged[h]; ok && !p.asked[h] {
		p.asked[h] = true
		return lb, nil
	}
	return p.Mock.LightBlock(ctx, h)
}

// Replay of F-C09-2 (obligation light.Client.backwards#post:linked): backwards verification walks the hash chain
// down to the target HEIGHT with blocks it fetches again from the primary, and never compares the block it ends on
// with the target header it was asked to verify. A primary that answers the first request with a forged header gets
// that header stored as trusted.
func TestReplayC09BackwardsTargetUnbound(t *testing.T) {
	_, headers, vals := genMockNode(chainID, 6, 3, 0, bTime)
	genuine := mockp.New(chainID, headers, vals)
	_, otherHeaders, otherVals := genMockNode(chainID, 6, 3, 0, bTime)
	forged := &types.LightBlock{SignedHeader: otherHeaders[2], ValidatorSet: otherVals[2]}
	require.NoError(t, forged.ValidateBasic(chainID))
	require.NotEqual(t, headers[2].Hash(), forged.Hash())

	primary := &forgeFirst{Mock: genuine, forged: map[int64]*types.LightBlock{2: forged}, asked: map[int64]bool{}}
	witness := mockp.New(chainID, headers, vals)

	c, err := light.NewClient(
		ctx,
		chainID,
		light.TrustOptions{Height: 5, Hash: headers[5].Hash(), Period: 4 * time.Hour},
		primary,
		[]provider.Provider{witness},
		dbs.New(dbm.NewMemDB(), chainID),
		light.Logger(log.TestingLogger()),
	)
	require.NoError(t, err)

	lb, err := c.VerifyLightBlockAtHeight(ctx, 2, bTime.Add(1*time.Hour))
	if err == nil {
		stored, serr := c.TrustedLightBlock(2)
		require.NoError(t, serr)
		require.Equal(t, headers[2].Hash(), stored.Hash(),
			"a header that is neither verified nor hash-linked to the trusted chain was stored as trusted (returned %X)", lb.Hash())
	}
}
