package light_test

import (
	"context"
	"testing"
	"time"

	"github.com/stretchr/testify/require"
	dbm "github.com/tendermint/tm-db"

	"github.com/tendermint/tendermint/libs/log"
	"github.com/tendermint/tendermint/light"
	"github.com/tendermint/tendermint/light/provider"
	mockp "github.com/tendermint/tendermint/light/provider/mock"
	dbs "github.com/tendermint/tendermint/light/store/db"
	"github.com/tendermint/tendermint/types"
)

// slowSilent answers every request with ErrNoResponse after a delay (an unresponsive witness).
type slowSilent struct{ chainID string }

func (p *slowSilent) ChainID() string { return p.chainID }
func (p *slowSilent) LightBlock(ctx context.Context, _ int64) (*types.LightBlock, error) {
	time.Sleep(300 * time.Millisecond)
	return nil, provider.ErrNoResponse
}
func (p *slowSilent) ReportEvidence(context.Context, types.Evidence) error { return nil }

// Replay of F-C09-1 (obligation light.Client.compareNewHeaderWithWitness#post:once / #post:match):
// the only responsive witness serves a DIFFERENT header at the target height which it cannot back with a trace, the
// other witness never answers. No witness returned the identical header, so the header must not be confirmed.
func TestReplayC09ConflictingWitnessConfirms(t *testing.T) {
	_, primaryHeaders, primaryVals := genMockNode(chainID, 10, 5, 2, bTime)
	primary := mockp.New(chainID, primaryHeaders, primaryVals)
	firstBlock, err := primary.LightBlock(ctx, 1)
	require.NoError(t, err)

	// the lying witness: same chain up to height 9 (separately copied maps), unrelated header at height 10
	_, otherHeaders, otherVals := genMockNode(chainID, 10, 5, 2, bTime)
	wh := map[int64]*types.SignedHeader{}
	wv := map[int64]*types.ValidatorSet{}
	for h, sh := range primaryHeaders {
		wh[h] = sh
		wv[h] = primaryVals[h]
	}
	wh[10], wv[10] = otherHeaders[10], otherVals[10]
	require.NotEqual(t, primaryHeaders[10].Hash(), wh[10].Hash())
	liar := mockp.New(chainID, wh, wv)

	c, err := light.NewClient(
		ctx,
		chainID,
		light.TrustOptions{Height: 1, Hash: firstBlock.Hash(), Period: 4 * time.Hour},
		primary,
		[]provider.Provider{liar, &slowSilent{chainID}},
		dbs.New(dbm.NewMemDB(), chainID),
		light.Logger(log.TestingLogger()),
	)
	require.NoError(t, err)

	_, err = c.VerifyLightBlockAtHeight(ctx, 10, bTime.Add(1*time.Hour))
	require.Error(t, err, "header at height 10 was confirmed although no witness returned the identical header")
	_, terr := c.TrustedLightBlock(10)
	require.Error(t, terr, "unconfirmed header was stored as trusted")
}
