package consensus

import (
	"os"
	"testing"

	"github.com/stretchr/testify/require"
	dbm "github.com/tendermint/tm-db"

	"github.com/tendermint/tendermint/abci/example/kvstore"
	"github.com/tendermint/tendermint/crypto/merkle"
	"github.com/tendermint/tendermint/proxy"
	sm "github.com/tendermint/tendermint/state"
	"github.com/tendermint/tendermint/types"
)

// oneBlockStore is a block store holding exactly one block (the chain's first one).
type oneBlockStore struct {
	block  *types.Block
	commit *types.Commit
}

func (s *oneBlockStore) Base() int64   { return s.block.Height }
func (s *oneBlockStore) Height() int64 { return s.block.Height }
func (s *oneBlockStore) Size() int64   { return 1 }
func (s *oneBlockStore) LoadBaseMeta() *types.BlockMeta {
	return s.LoadBlockMeta(s.block.Height)
}
func (s *oneBlockStore) LoadBlockMeta(height int64) *types.BlockMeta {
	if height != s.block.Height {
		return nil
	}
	return &types.BlockMeta{
		BlockID: types.BlockID{Hash: s.block.Hash(), PartSetHeader: s.block.MakePartSet(types.BlockPartSizeBytes).Header()},
		Header:  s.block.Header,
	}
}
func (s *oneBlockStore) LoadBlock(height int64) *types.Block {
	if height != s.block.Height {
		return nil
	}
	return s.block
}
func (s *oneBlockStore) SaveBlock(*types.Block, *types.PartSet, *types.Commit) {}
func (s *oneBlockStore) PruneBlocks(int64) (uint64, error)                    { return 0, nil }
func (s *oneBlockStore) LoadBlockByHash([]byte) *types.Block                  { return s.block }
func (s *oneBlockStore) LoadBlockPart(int64, int) *types.Part                 { return nil }
func (s *oneBlockStore) LoadBlockCommit(int64) *types.Commit                  { return s.commit }
func (s *oneBlockStore) LoadSeenCommit(int64) *types.Commit                   { return s.commit }

// Replay of F-C05-2 (obligation consensus.Handshaker.ReplayBlocks#nopanic / #post:synced): a chain whose genesis sets
// initial_height = 5. The node saves its first block (height 5) to the block store and crashes before the state is
// saved - one of the crash points of the commit pipeline. On restart the store is at 5 and the state still at 0:
// exactly "store one block ahead of the state", which the handshake must repair by replaying that block.
func TestReplayC05FirstBlockWithInitialHeight(t *testing.T) {
	config := ResetConfig("replay_c05")
	defer os.RemoveAll(config.RootDir)
	genDoc, err := sm.MakeGenesisDocFromFile(config.GenesisFile())
	require.NoError(t, err)
	genDoc.InitialHeight = 5
	state, err := sm.MakeGenesisState(genDoc)
	require.NoError(t, err)
	state.Version.Consensus.App = kvstore.ProtocolVersion // what the application reports in Info
	state.LastResultsHash = merkle.HashFromByteSlices(nil) // as persisted by the first handshake (InitChain)
	stateStore := sm.NewStore(dbm.NewMemDB(), sm.StoreOptions{})
	require.NoError(t, stateStore.Save(state))

	// the first block of the chain, as a proposer builds it from the genesis state
	first, _ := state.MakeBlock(5, []types.Tx{types.Tx("a=b")}, types.NewCommit(0, 0, types.BlockID{}, nil), nil,
		state.Validators.GetProposer().Address)
	store := &oneBlockStore{block: first, commit: types.NewCommit(5, 0, types.BlockID{}, nil)}

	proxyApp := proxy.NewAppConns(proxy.NewLocalClientCreator(kvstore.NewApplication()))
	require.NoError(t, proxyApp.Start())
	t.Cleanup(func() { _ = proxyApp.Stop() })

	h := NewHandshaker(stateStore, state, store, genDoc)
	require.NotPanics(t, func() {
		require.NoError(t, h.Handshake(proxyApp))
	}, "restart after a crash between saving the first block (height = initial_height > 1) and saving the state")
	loaded, err := stateStore.Load()
	require.NoError(t, err)
	require.Equal(t, int64(5), loaded.LastBlockHeight, "state, store and application agree on the height after the restart")
}
