package v1

import (
	"os"
	"testing"
	"time"

	"github.com/stretchr/testify/require"

	"github.com/tendermint/tendermint/abci/example/kvstore"
	abci "github.com/tendermint/tendermint/abci/types"
	"github.com/tendermint/tendermint/config"
	"github.com/tendermint/tendermint/libs/log"
	"github.com/tendermint/tendermint/mempool"
	"github.com/tendermint/tendermint/proxy"
)

// slowCheckApp blocks inside CheckTx until released.
type slowCheckApp struct {
	*kvstore.Application
	entered chan struct{}
	release chan struct{}
}

func (a *slowCheckApp) CheckTx(req abci.RequestCheckTx) abci.ResponseCheckTx {
	a.entered <- struct{}{}
	<-a.release
	return abci.ResponseCheckTx{Code: abci.CodeTypeOK, GasWanted: 1}
}

// Replay of F-C05-1 (obligation mempool/v1.TxMempool.CheckTx#atcall:AppConnMempool.CheckTxSync.guarded@1, a KNOWN
// FINDING): the priority mempool releases its read lock before it asks the application to check the transaction. The
// consensus side can therefore take the mempool lock (as BlockExecutor.Commit does before CommitSync) while that check
// is still in flight on the mempool connection.
func TestReplayC05V1CheckInFlightUnderLock(t *testing.T) {
	app := &slowCheckApp{kvstore.NewApplication(), make(chan struct{}, 1), make(chan struct{})}
	conn, err := proxy.NewLocalClientCreator(app).NewABCIClient()
	require.NoError(t, err)
	require.NoError(t, conn.Start())
	cfg := config.ResetTestRoot("replay_c05_v1")
	t.Cleanup(func() { os.RemoveAll(cfg.RootDir); _ = conn.Stop() })
	txmp := NewTxMempool(log.NewNopLogger(), cfg.Mempool, conn, 0)

	done := make(chan error, 1)
	go func() { done <- txmp.CheckTx([]byte("k=v"), nil, mempool.TxInfo{}) }()
	<-app.entered // the application is now checking the transaction

	locked := make(chan struct{})
	go func() { txmp.Lock(); close(locked) }() // what consensus does right before Commit
	select {
	case <-locked:
		txmp.Unlock()
		close(app.release)
		<-done
		t.Fatal("consensus acquired the mempool lock while a CheckTx was in flight on the mempool connection")
	case <-time.After(500 * time.Millisecond):
		// the lock is held off until the check completes: what the property requires
		close(app.release)
		<-done
		<-locked
		txmp.Unlock()
	}
}
