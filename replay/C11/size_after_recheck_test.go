package evidence_test

import (
	"testing"
	"time"

	"github.com/stretchr/testify/require"
	dbm "github.com/tendermint/tm-db"

	"github.com/tendermint/tendermint/evidence"
	"github.com/tendermint/tendermint/evidence/mocks"
	"github.com/tendermint/tendermint/libs/log"
	sm "github.com/tendermint/tendermint/state"
	smmocks "github.com/tendermint/tendermint/state/mocks"
	"github.com/tendermint/tendermint/types"
)

// Replay of F-C11-1: light-client-attack evidence that is already pending is verified and saved again by
// CheckEvidence, and the reported size is incremented each time although the number of pending items is 1.
func TestReplayC11SizeAfterRecheck(t *testing.T) {
	var height, commonHeight int64 = 100, 90
	ev, trusted, common := makeLunaticEvidence(t, height, commonHeight, 10, 5, 5, defaultEvidenceTime, defaultEvidenceTime.Add(1*time.Hour))
	state := sm.State{LastBlockTime: defaultEvidenceTime.Add(2 * time.Hour), LastBlockHeight: 110, ConsensusParams: *types.DefaultConsensusParams()}
	stateStore := &smmocks.Store{}
	stateStore.On("LoadValidators", height).Return(trusted.ValidatorSet, nil)
	stateStore.On("LoadValidators", commonHeight).Return(common.ValidatorSet, nil)
	stateStore.On("Load").Return(state, nil)
	blockStore := &mocks.BlockStore{}
	blockStore.On("LoadBlockMeta", height).Return(&types.BlockMeta{Header: *trusted.Header})
	blockStore.On("LoadBlockMeta", commonHeight).Return(&types.BlockMeta{Header: *common.Header})
	blockStore.On("LoadBlockCommit", height).Return(trusted.Commit)
	blockStore.On("LoadBlockCommit", commonHeight).Return(common.Commit)
	pool, err := evidence.NewPool(dbm.NewMemDB(), stateStore, blockStore)
	require.NoError(t, err)
	pool.SetLogger(log.TestingLogger())
	require.NoError(t, pool.AddEvidence(ev))
	for i := 0; i < 3; i++ {
		require.NoError(t, pool.CheckEvidence(types.EvidenceList{ev}))
	}
	pending, _ := pool.PendingEvidence(-1)
	if int(pool.Size()) != len(pending) {
		t.Fatalf("pool reports size %d but %d item(s) are pending", pool.Size(), len(pending))
	}
}
