package statesync

import (
	"os"
	"testing"

	"github.com/stretchr/testify/mock"
	"github.com/stretchr/testify/require"

	abci "github.com/tendermint/tendermint/abci/types"
	"github.com/tendermint/tendermint/libs/log"
	"github.com/tendermint/tendermint/p2p"
	proxymocks "github.com/tendermint/tendermint/proxy/mocks"
)

// Replay of F-C14-1 (obligation statesync.syncer.AddChunk#post:notrejected): the application rejects a chunk sender;
// the syncer blacklists the peer in the snapshot pool and discards its chunks for refetching - but a chunk pushed again
// by that very peer is put back into the queue and handed to the application with the rejected sender's id.
func TestReplayC14RejectedSenderChunkAccepted(t *testing.T) {
	dir, err := os.MkdirTemp("", "replay-c14")
	require.NoError(t, err)
	defer os.RemoveAll(dir)

	snap := &snapshot{Height: 5, Format: 1, Chunks: 2, Hash: []byte{1}}
	queue, err := newChunkQueue(snap, dir)
	require.NoError(t, err)
	defer queue.Close()

	conn := &proxymocks.AppConnSnapshot{}
	s := &syncer{logger: log.NewNopLogger(), conn: conn, snapshots: newSnapshotPool(), chunks: queue}

	// chunk 0 arrives from the peer "bad"; the app applies it, asks to refetch it and rejects its sender
	added, err := s.AddChunk(&chunk{Height: 5, Format: 1, Index: 0, Chunk: []byte("poison"), Sender: "bad"})
	require.NoError(t, err)
	require.True(t, added)
	conn.On("ApplySnapshotChunkSync", abci.RequestApplySnapshotChunk{Index: 0, Chunk: []byte("poison"), Sender: "bad"}).
		Return(&abci.ResponseApplySnapshotChunk{
			Result:        abci.ResponseApplySnapshotChunk_RETRY_SNAPSHOT, // leave applyChunks after the bookkeeping
			RefetchChunks: []uint32{0},
			RejectSenders: []string{"bad"},
		}, nil).Once()
	require.ErrorIs(t, s.applyChunks(queue), errRetrySnapshot)
	require.False(t, queue.Has(0), "the rejected sender's chunk was discarded")

	// the rejected peer pushes the chunk again
	added, err = s.AddChunk(&chunk{Height: 5, Format: 1, Index: 0, Chunk: []byte("poison"), Sender: p2p.ID("bad")})
	require.NoError(t, err)
	require.False(t, added, "a chunk from a rejected sender was accepted again")
	require.NotEqual(t, p2p.ID("bad"), queue.GetSender(0))
	_ = mock.Anything
}
