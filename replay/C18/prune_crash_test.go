package store

import (
	"os"
	"testing"

	"github.com/stretchr/testify/require"
	dbm "github.com/tendermint/tm-db"

	cfg "github.com/tendermint/tendermint/config"
	sm "github.com/tendermint/tendermint/state"
	"github.com/tendermint/tendermint/types"
	tmtime "github.com/tendermint/tendermint/types/time"
)

type crashDB struct {
	dbm.DB
	writes *int
	at     int
}

type crashBatch struct {
	dbm.Batch
	db *crashDB
}

func (d *crashDB) NewBatch() dbm.Batch { return &crashBatch{d.DB.NewBatch(), d} }

func (b *crashBatch) WriteSync() error {
	err := b.Batch.WriteSync()
	*b.db.writes++
	if *b.db.writes == b.db.at {
		panic("simulated crash right after a batch write")
	}
	return err
}

// Replay of F-C18-1: a crash right after the first 1000-block batch of a prune leaves the persisted base pointing at
// a block that the batch has already deleted.
func TestReplayC18PruneCrash(t *testing.T) {
	config := cfg.ResetTestRoot("replay_c18")
	defer os.RemoveAll(config.RootDir)
	stateStore := sm.NewStore(dbm.NewMemDB(), sm.StoreOptions{})
	state, err := stateStore.LoadFromDBOrGenesisFile(config.GenesisFile())
	require.NoError(t, err)
	mem := dbm.NewMemDB()
	n := 0
	bs := NewBlockStore(&crashDB{DB: mem, writes: &n, at: 1})
	for h := int64(1); h <= 1500; h++ {
		block := makeBlock(h, state, new(types.Commit))
		bs.SaveBlock(block, block.MakePartSet(2), makeTestCommit(h, tmtime.Now()))
	}
	func() {
		defer func() { _ = recover() }()
		_, _ = bs.PruneBlocks(1400)
	}()
	// "restart": reopen the store from what is on disk
	re := NewBlockStore(mem)
	if re.LoadBlockMeta(re.Base()) == nil {
		t.Fatalf("after the crash the store reports base %d height %d but block %d is gone", re.Base(), re.Height(), re.Base())
	}
}
