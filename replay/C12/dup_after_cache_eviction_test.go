package v0

import (
	"testing"

	"github.com/tendermint/tendermint/abci/example/kvstore"
	"github.com/tendermint/tendermint/config"
	"github.com/tendermint/tendermint/mempool"
	"github.com/tendermint/tendermint/proxy"
)

// Replay of F-C12-2: with a cache smaller than the pool, a transaction evicted from the cache while still in the
// pool is admitted a second time (submit a, b, a with CacheSize = 1).
func TestReplayC12DuplicateAfterCacheEviction(t *testing.T) {
	app := kvstore.NewApplication()
	cc := proxy.NewLocalClientCreator(app)
	cfg := config.ResetTestRoot("replay_c12")
	cfg.Mempool.CacheSize = 1
	mp, cleanup := newMempoolWithAppAndConfig(cc, cfg)
	defer cleanup()
	a, b := []byte("a=1"), []byte("b=2")
	for _, tx := range [][]byte{a, b, a} {
		_ = mp.CheckTx(tx, nil, mempool.TxInfo{})
	}
	seen := map[string]int{}
	for _, tx := range mp.ReapMaxTxs(-1) {
		seen[string(tx)]++
	}
	for k, n := range seen {
		if n > 1 {
			t.Fatalf("transaction %q is in the pool %d times (size %d)", k, n, mp.Size())
		}
	}
}
