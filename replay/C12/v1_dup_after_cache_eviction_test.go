package v1

import (
	"testing"
)

// Replay of F-C12-3: the priority mempool (v1) has the same hole as v0 had (F-C12-2): with a cache smaller than the
// pool, a transaction evicted from the cache while still in the pool is admitted a second time - insertTx overwrites
// the key index entry and the first list element stays in the list (submit a, b, a with CacheSize = 1; the
// transactions carry an empty sender, which the one-transaction-per-sender rule does not restrict).
func TestReplayC12V1DuplicateAfterCacheEviction(t *testing.T) {
	txmp := setup(t, 1)
	for _, spec := range []string{"=k1=10", "=k2=20", "=k1=10"} {
		mustCheckTx(t, txmp, spec)
	}
	seen := map[string]int{}
	for e := txmp.TxsFront(); e != nil; e = e.Next() {
		seen[string(e.Value.(*WrappedTx).tx)]++
	}
	for k, n := range seen {
		if n > 1 {
			t.Fatalf("transaction %q is in the pool %d times (Size %d, key index %d)", k, n, txmp.Size(), len(txmp.txByKey))
		}
	}
}
