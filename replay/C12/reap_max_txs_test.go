package v0

import (
	"testing"

	"github.com/tendermint/tendermint/abci/example/kvstore"
	"github.com/tendermint/tendermint/mempool"
	"github.com/tendermint/tendermint/proxy"
)

// Replay of F-C12-1: ReapMaxTxs(max) returned max+1 transactions.
func TestReplayC12ReapMaxTxs(t *testing.T) {
	app := kvstore.NewApplication()
	cc := proxy.NewLocalClientCreator(app)
	mp, cleanup := newMempoolWithApp(cc)
	defer cleanup()
	for _, tx := range []string{"a=1", "b=2", "c=3", "d=4", "e=5"} {
		_ = mp.CheckTx([]byte(tx), nil, mempool.TxInfo{})
	}
	for _, max := range []int{0, 1, 3} {
		if n := len(mp.ReapMaxTxs(max)); n > max {
			t.Fatalf("ReapMaxTxs(%d) returned %d transactions", max, n)
		}
	}
}
