package consensus

import (
	"testing"

	"github.com/stretchr/testify/require"

	cstypes "github.com/tendermint/tendermint/consensus/types"
	"github.com/tendermint/tendermint/crypto/tmhash"
	"github.com/tendermint/tendermint/libs/bits"
	"github.com/tendermint/tendermint/p2p/mock"
	tmcons "github.com/tendermint/tendermint/proto/tendermint/consensus"
	tmbits "github.com/tendermint/tendermint/proto/tendermint/libs/bits"
	tmproto "github.com/tendermint/tendermint/proto/tendermint/types"
)

// Replay of F-C17-1 (obligation libs/bits.BitArray.FromProto#post:wf): a peer sends a NewValidBlock message whose bit
// array claims 4 bits but carries no elements. The message decodes and passes ValidateBasic (only Size() is looked at),
// and the reactor stores the bit array in the peer's round state. The gossip routine of that peer - a goroutine of its
// own, with no recover - later marks a part as sent in exactly this bit array and indexes past its (empty) element
// slice: the whole node goes down on one message.
func TestReplayC17MalformedBitArrayFromPeer(t *testing.T) {
	wire := &tmcons.NewValidBlock{
		Height:             7,
		Round:              0,
		BlockPartSetHeader: tmproto.PartSetHeader{Total: 4, Hash: tmhash.Sum([]byte("x"))},
		BlockParts:         &tmbits.BitArray{Bits: 4, Elems: nil}, // 4 bits, zero elements
		IsCommit:           false,
	}
	msgI, err := MsgFromProto(&tmcons.Message{Sum: &tmcons.Message_NewValidBlock{NewValidBlock: wire}})
	if err != nil {
		return // rejected while decoding: fine (the peer is dropped)
	}
	msg := msgI.(*NewValidBlockMessage)
	if err := msg.ValidateBasic(); err != nil {
		return // rejected at the door: fine (the peer is dropped)
	}

	ps := NewPeerState(mock.NewPeer(nil))
	ps.ApplyNewRoundStepMessage(&NewRoundStepMessage{Height: 7, Round: 0, Step: cstypes.RoundStepPropose, LastCommitRound: -1})
	ps.ApplyNewValidBlockMessage(msg)

	// what gossipDataRoutine does after it has sent part `index` to this peer
	ours := bits.NewBitArray(4)
	ours.SetIndex(2, true)
	index, ok := ours.Sub(ps.GetRoundState().ProposalBlockParts.Copy()).PickRandom()
	require.True(t, ok)
	require.NotPanics(t, func() { ps.SetHasProposalBlockPart(7, 0, index) },
		"a bit array received from a peer makes the node's gossip goroutine panic")
}
