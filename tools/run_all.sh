#!/bin/bash
# Runs every registered check (quick, or thorough with --thorough) on the current tree and validates evidence.
cd /verif
tier="$1"
ids=$(python3 -c "import json;print(' '.join(c['property_id'] for c in json.load(open('MANIFEST.json'))['checks']))")
rc=0
for id in $ids; do
  out=$(./check $id $tier 2>&1); code=$?
  echo "$id exit=$code $(echo "$out" | tail -1)"
  [ $code -ne 0 ] && { rc=1; echo "$out" | grep -v '^  ' | head -8; }
  python3-vt - <<PY || rc=1
import json,jsonschema
ev=json.load(open('/verif/evidence/$id.json'))
jsonschema.validate(ev,json.load(open('/root/.vp/EVIDENCE.schema.json')))
c=ev['coverage']
assert c['obligations']==c['discharged'] or ev.get('violations',0)>0, ('discharged!=obligations', c['obligations'], c['discharged'])
PY
done
exit $rc
