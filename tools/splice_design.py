#!/usr/bin/env python3
"""Rebuilds section A of DESIGN.md: docs/as_built.md (A.1-A.5) + the seed x check matrix (A.6, from seeded/matrix.json
and seeded/<id>/meta.json) + the per-property as-built notes (A.7, from props/<id>.json)."""
import json, os, subprocess, glob
root = '/verif'
full = open(f'{root}/docs/as_built.md').read()
k = full.find('### A.8')
tail = full[k:].rstrip() + '\n\n' if k >= 0 else ''
a = (full[:k] if k >= 0 else full).rstrip() + '\n\n'
# A.6
mx = json.load(open(f'{root}/seeded/matrix.json')) if os.path.exists(f'{root}/seeded/matrix.json') else {}
checks = [c['property_id'] for c in json.load(open(f'{root}/MANIFEST.json'))['checks']]
a += "### A.6 Seeded property-breaking changes and which checks report them\n\n"
a += ("Twenty-six changes to `/repo` - one per claimable property in round 1, seven more (`C08b`, `C10b`, `C12b`,\n"
      "`C14b`, `C15b`, `C18b`, `C19b`) in round 2 - were produced by fresh sub-agents that saw only the\n"
      "property text and the code (never `/verif`): each compiles, passes the existing test suite of the packages it\n"
      "touches, and breaks the property on some input, schedule or crash point that the sub-agent demonstrated with a\n"
      "test of its own. Each is kept under `/verif/seeded/<id>/` (`patch.diff`, the demonstration test, the logs of my own\n"
      "confirmation in a scratch worktree, `meta.json` with what it needs to manifest and what was run); none was ever\n"
      "committed to `/repo`. `tools/seed_matrix.sh` applies each to a snapshot copy of `/repo` and runs every registered\n"
      "check that READS THE BODY of a function in a patched file (`coverage.files_with_bodies_read` of the evidence);\n"
      "the other cells are n/a - such a check cannot change its verdict. Result (`X` = exits 1 with a VIOLATION line,\n"
      "`.` = exits 0, blank = n/a):\n\n")
a += "| seed | change | " + " | ".join(c[1:] for c in checks) + " |\n|" + "----|" * (len(checks) + 2) + "\n"
for sid in sorted(d for d in os.listdir(f'{root}/seeded') if d.startswith('C')):
    meta = json.load(open(f'{root}/seeded/{sid}/meta_agent.json'))
    summ = (meta.get('summary') or '').replace('\n', ' ').replace('|', '/')
    summ = summ[:150] + ('…' if len(summ) > 150 else '')
    row = mx.get(sid, {})
    cells = []
    for c in checks:
        r = row.get(c, {}).get('result') if isinstance(row.get(c), dict) else None
        cells.append({'caught': 'X', 'quiet': '.', None: '', 'n/a': ''}.get(r, r or ''))
    a += f"| {sid} | {summ} | " + " | ".join(cells) + " |\n"
a += "\nObligations that fail, per caught cell:\n\n"
for sid in sorted(mx):
    for c in checks:
        v = mx[sid].get(c)
        if isinstance(v, dict) and v.get('result') == 'caught':
            a += f"* {sid} × {c}: " + ", ".join(f"`{o}`" for o in v.get('obligations', [])) + "\n"
notes = f'{root}/docs/seed_notes.md'
if os.path.exists(notes):
    a += "\n" + open(notes).read().rstrip() + "\n"
a += "\n"
# A.7
a += subprocess.run(['python3', f'{root}/tools/gen_as_built_props.py'], capture_output=True, text=True).stdout
a += tail
# A.2: refresh the numeric columns of the table from the evidence files of the last clean run
import re
def fix(m):
    pid = m.group(1)
    try:
        ev = json.load(open(f'{root}/evidence/{pid}.json'))['coverage']
        pr = json.load(open(f'{root}/props/{pid}.json'))
        return f"| {pid} | {len(ev['functions_under_contract'])} | {ev['obligations']} | {len(pr['canaries'])} |"
    except Exception:
        return m.group(0)
i2, i3 = a.index('### A.2'), a.index('### A.3')
a = a[:i2] + re.sub(r'\| (C\d\d) \| [^|]* \| [^|]* \| [^|]* \|', fix, a[i2:i3]) + a[i3:]
d = open(f'{root}/DESIGN.md').read()
B, E = '<!-- SECTION-A-BEGIN -->\n', '<!-- SECTION-A-END -->\n'
if B in d:
    d = d[:d.index(B)] + B + a + E + d[d.index(E) + len(E):]
else:
    marker = "The family of technique is fixed by the brief"
    i = d.index(marker)
    d = d[:i] + B + a + E + '\n' + d[i:]
open(f'{root}/DESIGN.md', 'w').write(d)
print('DESIGN.md: section A is', len(a), 'bytes')
