#!/usr/bin/env python3
"""Writes seeded/<id>/meta.json for every seeded change from the sub-agent's report (meta_agent.json), the
confirmation logs kept next to it and the seed x check matrix (seeded/matrix.json, produced by tools/seed_matrix.sh)."""
import json, os, glob
root = '/verif/seeded'
matrix = json.load(open(f'{root}/matrix.json')) if os.path.exists(f'{root}/matrix.json') else {}
for d in sorted(glob.glob(f'{root}/C*')):
    sid = os.path.basename(d)
    a = json.load(open(f'{d}/meta_agent.json'))
    row = matrix.get(sid, {})
    caught = sorted(c for c, v in row.items() if isinstance(v, dict) and v.get('result') == 'caught')
    quiet = sorted(c for c, v in row.items() if isinstance(v, dict) and v.get('result') == 'quiet')
    patch = 'patch_rebased.diff' if os.path.exists(f'{d}/patch_rebased.diff') else 'patch.diff'
    m = {
        "property": a.get('property', sid),
        "patch": patch,
        "change": a.get('summary'),
        "why_it_breaks_the_property": a.get('why_breaks'),
        "needs_to_manifest": a.get('needs_to_manifest'),
        "demonstration": {"file": a.get('demo_path'), "cmd": a.get('demo_cmd'),
                          "note": "the demonstration test is kept here (not in /repo); copy it next to the patched package in a scratch worktree to run it"},
        "what_the_sub_agent_ran": a.get('tests_run'),
        "what_i_ran": [
            "scratch worktree of /repo outside /repo and /verif: applied the patch, `go build ./...`, the demonstration test (fails with the patch, passes without), the touched packages' existing tests (pass with the patch); logs: " + ', '.join(sorted(f for f in os.listdir(d) if f.startswith('confirm'))),
            "tools/with_patch.sh seeded/%s/%s ./check <id> --nocanary for the property's own check (patch applied to /repo, check run, `git checkout -- .` straight afterwards)" % (sid, patch),
            "tools/seed_matrix.sh: every registered check whose loaded packages contain a patched file, on a patched snapshot copy of /repo (sequential, nothing else running)",
        ],
        "checks_that_report_a_violation": {c: row[c].get('obligations', []) for c in caught},
        "checks_run_that_stay_quiet": quiet,
    }
    if a.get('round') == 2:
        m['round'] = 2
        if sid != 'C15b':  # round 2: only C15b was also run with the patch applied to /repo itself
            m['what_i_ran'] = [w for w in m['what_i_ran'] if not w.startswith('tools/with_patch.sh')]
        else:
            m['what_i_ran'].append("first matrix run: C15 stayed quiet; after the completeness probe was added to the Decode contract the check reports the seed (docs/seed_notes.md)")
    json.dump(m, open(f'{d}/meta.json', 'w'), indent=1)
    print(sid, 'caught by', caught or 'NONE')
