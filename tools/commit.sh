#!/bin/bash
# tools/commit.sh "<message>": regenerates the manifest, runs every registered check on the clean tree and commits
# /verif only if all of them pass (never commit evidence of a failing or seeded run).
cd /verif
if [ -n "$(git -C /repo status --porcelain --untracked-files=no)" ]; then echo "commit.sh: /repo has uncommitted tracked changes" >&2; exit 99; fi
python3 tools/gen_manifest.py || exit 1
out=$(tools/run_all.sh 2>&1); rc=$?
echo "$out" | grep "exit=" 
if [ $rc -ne 0 ]; then echo "$out" | tail -20; echo "commit.sh: NOT committed (a check failed)" >&2; exit 1; fi
git add -A && git commit -q -m "$1" && echo "committed: $1"
