#!/bin/bash
# tools/seed_matrix.sh [seed ids...]: runs the registered checks against every seeded change, each on a patched
# scratch copy of a snapshot of /repo (outside /repo and /verif, removed afterwards), with a private copy of the
# engine binary, and writes seeded/matrix.json. A check is run for a seed when it READS THE BODY of a function in
# one of the patched files - symbolically executes it, inlines it or analyses it for its write set; the list is the
# `coverage.files_with_bodies_read` of the check's evidence file from its last run on the clean tree. Every other
# cell is "n/a": a check that reads no body in a patched file cannot change its verdict (contracts of the patched
# functions are not touched by the seeds). A cell is "caught" when the check exits 1 with a VIOLATION line,
# "quiet" when it exits 0. Seeds run two at a time (PAR=1 for strictly sequential).
cd /verif
export GOFLAGS=-mod=mod GOPROXY=off GOSUMDB=off GOTOOLCHAIN=local
ids=${@:-$(ls seeded | grep '^C')}
PAR=${PAR:-2}
work=$(mktemp -d /tmp/seedrun.XXXXXX)
mkdir -p $work/base; rsync -a --exclude .git /repo/ $work/base/; cp bin/govc $work/govc
python3 - > $work/deps.txt <<'PY'
import json
m=json.load(open('/verif/MANIFEST.json'))
for c in m['checks']:
    pid=c['property_id']
    ev=json.load(open('/verif/evidence/%s.json'%pid))
    print(pid,' '.join(ev['coverage'].get('files_with_bodies_read') or []))
PY
one() {
  s=$1
  d=$work/$s; mkdir -p $d/out; cp -r $work/base $d/repo
  p=seeded/$s/patch_rebased.diff; [ -f $p ] || p=seeded/$s/patch.diff
  if ! (cd $d/repo && patch -p1 -F3 -s < /verif/$p >/dev/null 2>&1); then echo "$s APPLY-FAILED" >> $work/m.$s; rm -rf $d; return; fi
  (cd $d/repo && find . \( -name '*.orig' -o -name '*.rej' \) -delete)
  files=$(grep '^+++ b/' $p | sed 's|^+++ b/||')
  while read c deps; do
    rel=no
    for f in $files; do for q in $deps; do [ "$q" = "$f" ] && rel=yes; done; done
    if [ $rel = no ]; then echo "$s $c n/a" >> $work/m.$s; continue; fi
    out=$(GOVC_REPO=$d/repo GOVC_OUT=$d/out $work/govc check $c --nocanary 2>&1); code=$?
    obl=$(echo "$out" | grep -o 'obligation [^ ]*:' | sed 's/obligation //;s/:$//' | head -4 | tr '\n' ' ')
    echo "$s $c exit=$code $obl" | tee -a $work/m.$s
  done < $work/deps.txt
  rm -rf $d
}
n=0
for s in $ids; do
  one $s &
  n=$((n+1)); if [ $n -ge $PAR ]; then wait -n; n=$((n-1)); fi
done
wait
cat $work/m.* > $work/matrix.txt
python3 - "$work/matrix.txt" <<'PY'
import sys,json,collections
import os
m=collections.defaultdict(dict)
if os.path.exists('/verif/seeded/matrix.json'):  # rows of seeds not run this time are kept
    m.update(json.load(open('/verif/seeded/matrix.json')))
ran=set(l.split()[0] for l in open(sys.argv[1]) if l.split())
for s_ in ran: m[s_]={}
for l in open(sys.argv[1]):
    p=l.split()
    if len(p)>=3 and p[2].startswith('exit='):
        code=int(p[2][5:]); m[p[0]][p[1]]={'result':'caught' if code==1 else ('quiet' if code==0 else 'error%d'%code),'obligations':p[3:]}
    elif len(p)==3 and p[2]=='n/a':
        m[p[0]][p[1]]={'result':'n/a'}
    elif len(p)==2 and p[1]=='APPLY-FAILED':
        m[p[0]]['_apply']='failed'
json.dump(m,open('/verif/seeded/matrix.json','w'),indent=1,sort_keys=True)
for s in sorted(m):
    print(s, ' '.join('%s:%s'%(c,v['result']) for c,v in sorted(m[s].items()) if isinstance(v,dict) and v['result'] not in ('n/a',)) or 'no registered check reads a patched body')
PY
rm -rf $work
