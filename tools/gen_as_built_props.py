#!/usr/bin/env python3
"""Prints the per-property 'As built' notes (DESIGN.md section A.7) from props/<id>.json - the same files that drive the checks."""
import json, glob
print("### A.7 Per property: as built (generated from `props/<id>.json`, the files that drive the checks)\n")
print("For every claimed property: the functions whose bodies are verified against their contracts, the must-fail\ncanaries, what the check does NOT decide, and the assumptions beyond the engine's common trusted base (§1.8).\nThe decided part is `level_claimed.text` in MANIFEST.json (not repeated here).\n")
for f in sorted(glob.glob('/verif/props/C*.json')):
    p = json.load(open(f))
    print(f"#### {p['id']} - as built\n")
    print("Functions under contract (bodies verified): " + ", ".join(f"`{x}`" for x in p['functions']) + ".\n")
    print("Must-fail canaries (" + str(len(p['canaries'])) + "): " + "; ".join(c['name'] + (" [thorough only]" if c.get('thorough_only') else "") for c in p['canaries']) + ".\n")
    print("Not decided:\n")
    for n in p.get('not_decided', []):
        print(f"* {n}")
    print("\nAssumptions specific to this check:\n")
    for n in p.get('assumptions', []):
        print(f"* {n}")
    if p.get('level_note'):
        print("\nNote: " + p['level_note'])
    print()
