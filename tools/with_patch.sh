#!/bin/bash
# tools/with_patch.sh <patch.diff> <command...>: applies a seeded change to /repo, runs the command, undoes it.
# Refuses to run when /repo has uncommitted changes to tracked files (they would be lost by the undo).
p="$(readlink -f "$1")"; shift
if [ -n "$(git -C /repo status --porcelain --untracked-files=no)" ]; then
  echo "with_patch: /repo has uncommitted changes to tracked files; commit them first" >&2; exit 99
fi
if ! git -C /repo apply "$p" 2>/dev/null; then
  (cd /repo && patch -p1 -F3 -s < "$p") || { echo "with_patch: patch does not apply" >&2; git -C /repo checkout -- .; exit 98; }
fi
"$@"; rc=$?
git -C /repo checkout -- .
find /repo -name '*.orig' -newer "$p" -delete 2>/dev/null
find /repo -name '*.rej' -delete 2>/dev/null
exit $rc
