#!/usr/bin/env python3
"""tools/mutants.py <property id> [max_per_function] [max_paths]
Sensitivity sweep of one check: for every function under contract (with at most max_paths paths) generate single-token
mutants of its body (relational operator flips, && <-> ||, == <-> !=, +1/-1 changes, true <-> false, a dropped `return`
or `continue`/`break` line), apply each IN MEMORY (govc -mutate overlay, /repo is not touched) and re-verify that one
function. A mutant is KILLED when some obligation fails (or a probe turns vacuous / a clause no longer binds), INVALID
when it does not compile, SURVIVED otherwise. Survivors are printed for inspection: each is either an equivalent
mutant, a change outside what the property states, or a hole in the contracts. Writes /verif/mutants/<id>.json."""
import json, re, subprocess, sys, os, random, concurrent.futures as cf
pid = sys.argv[1]
maxper = int(sys.argv[2]) if len(sys.argv) > 2 else 6
maxpaths = int(sys.argv[3]) if len(sys.argv) > 3 else 400
minpaths = int(sys.argv[4]) if len(sys.argv) > 4 else 0
suffix = sys.argv[5] if len(sys.argv) > 5 else ''
prop = json.load(open(f'/verif/props/{pid}.json'))
ev = json.load(open(f'/verif/evidence/{pid}.json'))
paths = {}
for f in ev['coverage']['functions_under_contract']:
    m = re.match(r'(\S+) \((\d+) paths\)', f)
    if m: paths[m.group(1)] = int(m.group(2))
OPS = [(' < ', ' <= '), (' <= ', ' < '), (' > ', ' >= '), (' >= ', ' > '), (' == ', ' != '), (' != ', ' == '),
       (' && ', ' || '), (' || ', ' && '), (' + 1', ' + 2'), (' - 1', ' - 0'), ('+1', '+2'), ('true', 'false'), ('false', 'true')]
def find_func(key):
    # key: pkgdir.Type.Method | pkgdir.Func  (pkgdir may contain slashes)
    parts = key.split('.')
    # package dir = longest prefix that is a directory
    for i in range(len(parts) - 1, 0, -1):
        d = '.'.join(parts[:i])
        if os.path.isdir('/repo/' + d):
            rest = parts[i:]; break
    else:
        return None
    if len(rest) == 2: pat = r'^func \(\w+ \*?%s\) %s\(' % (re.escape(rest[0]), re.escape(rest[1]))
    else: pat = r'^func %s\(' % re.escape(rest[0])
    for fn in sorted(os.listdir('/repo/' + d)):
        if not fn.endswith('.go') or fn.endswith('_test.go') or fn.startswith('zz_'): continue
        src = open(f'/repo/{d}/{fn}').read()
        m = re.search(pat, src, re.M)
        if m:
            end = src.find('\n}\n', m.start())
            return f'{d}/{fn}', src, m.start(), end + 3
    return None
def mutants_of(key):
    r = find_func(key)
    if not r: return []
    fn, src, a, b = r
    body = src[a:b]
    lines = body.split('\n')
    out = []
    off = a
    for li, line in enumerate(lines):
        st = line.strip()
        if li > 0 and not st.startswith('//') and '"' not in line.split('//')[0].replace('\\"', '') or (li > 0 and not st.startswith('//')):
            code = line.split('//')[0]
            cands = []
            for o, n in OPS:
                for m in re.finditer(re.escape(o), code):
                    # skip inside string literals (rough)
                    if code[:m.start()].count('"') % 2 == 1: continue
                    cands.append((m.start(), o, n))
            if st in ('return', 'continue', 'break') or re.match(r'return (false|nil|err|false, nil|nil, err|false, err)$', st):
                cands.append((-1, None, None))
            for pos, o, n in cands:
                if pos >= 0: newline = line[:pos] + n + line[pos + len(o):]
                else: newline = line.replace(st, '_ = 0' if st in ('continue', 'break', 'return') else st)
                if newline == line: continue
                # unique context: the line plus as many preceding lines as needed
                k = li
                while True:
                    old = '\n'.join(lines[k:li + 1]) + '\n'
                    if src.count(old) == 1 or k == 0: break
                    k -= 1
                if src.count(old) != 1 or '::' in old: continue
                new = '\n'.join(lines[k:li] + [newline]) + '\n'
                out.append({'file': fn, 'old': old, 'new': new, 'line': st, 'mut': (o or 'drop') + '->' + (n or '')})
    return out
def run(key, m):
    cmd = ['timeout', '1500', '/verif/bin/govc', 'verify', '-pkgs', ','.join(prop['packages']), '-funcs', key, '-timeout', '10',
           '-mutate', f"{m['file']}::{m['old']}::{m['new']}"]
    r = subprocess.run(cmd, capture_output=True, text=True)
    o = r.stdout + r.stderr
    if 'BUILD-ERROR' in o or 'build errors' in o: return 'invalid', ''
    bad = [l.split()[0] for l in o.splitlines() if (' FAILED ' in l or ' VACUOUS ' in l)]
    if 'BIND-ERROR' in o: bad.append('bind')
    if 'ABORTED' in o or r.returncode == 124: return 'error', o[-300:]
    return ('killed', ' '.join(bad[:3])) if bad else ('survived', '')
random.seed(1)
jobs = []
for key in prop['functions']:
    if '.lemma.' in key or paths.get(key, 10**9) > maxpaths or paths.get(key, 0) < minpaths: continue
    ms = mutants_of(key)
    random.shuffle(ms)
    for m in ms[:maxper]: jobs.append((key, m))
print(len(jobs), 'mutants')
res = []
with cf.ThreadPoolExecutor(max_workers=5) as ex:
    futs = {ex.submit(run, k, m): (k, m) for k, m in jobs}
    for f in cf.as_completed(futs):
        k, m = futs[f]; st, info = f.result()
        res.append({'function': k, 'line': m['line'], 'mutation': m['mut'], 'status': st, 'info': info})
        if st in ('survived', 'error'): print(st.upper(), k, '|', m['line'], '|', m['mut'], info[:100], flush=True)
os.makedirs('/verif/mutants', exist_ok=True)
json.dump(res, open(f'/verif/mutants/{pid}{suffix}.json', 'w'), indent=1)
from collections import Counter
print(pid, dict(Counter(r['status'] for r in res)))
