#!/usr/bin/env python3
"""Regenerates /verif/MANIFEST.json from /verif/props/*.json and /verif/tools/manifest_static.json."""
import json, glob, os, subprocess
root = '/verif'
static = json.load(open(f'{root}/tools/manifest_static.json'))
props = {json.loads(l)['id']: json.loads(l) for l in open(f'{root}/properties.jsonl')}
checks = []
claimed = []
for f in sorted(glob.glob(f'{root}/props/C*.json')):
    p = json.load(open(f))
    pid = p['id']
    if not p.get('level_text'):
        continue
    claimed.append(pid)
    checks.append({
        "property_id": pid,
        "quick_cmd": f"/verif/check {pid}",
        "thorough_cmd": f"/verif/check {pid} --thorough",
        "evidence_file": f"/verif/evidence/{pid}.json",
        "replay_cmd_template": f"/verif/check {pid} --replay {{path}}",
        "engine": "govc",
        "level_claimed": {"category": p.get("level", "proof"), "text": p['level_text'], "design_ref": f"DESIGN.md §3 {pid}"},
        "level_note": p['level_note'],
        "technique": p.get("technique", "contract-based deductive verification of the real functions: VC generation over go/ssa (symbolic execution, loop invariants, frame conditions, spec functions, lemmas), discharged by z3/cvc5"),
    })
na = []
for pid in sorted(props):
    if pid not in claimed:
        na.append({"property_id": pid, "reason": static['not_applicable'].get(pid, "no check registered yet: contracts for this property are still being written (see DESIGN.md §3)")})
hooks = subprocess.run(['git', '-C', '/repo', 'log', '--format=%h %s'], capture_output=True, text=True).stdout.strip().split('\n')
hook_commits = [l.split()[0] for l in hooks if l.split(' ', 1)[1].startswith('verif:')]
m = {
    "version": 1,
    "setup_cmd": "/verif/setup.sh",
    "hooks": {"guard": "verif", "enable": "go/packages is run with -tags verif; the hook commits add only comment-only zz_verif_contracts.go files guarded by //go:build verif",
              "baseline_off_cmd": "cd /repo && GOFLAGS=-mod=mod go test -vet=off -count=1 -timeout 25m ./...",
              "source_commits": hook_commits, "add_only": True},
    "engines": [{"name": "govc", "path": "/verif/govc", "serves_properties": claimed,
                 "kind_free_text": "VC generator for Go: go/packages + go/ssa (NaiveForm) symbolic execution of the real functions against //@ contracts kept in build-tag-guarded comment files in /repo; obligations in SMT-LIB discharged by z3 5.1 / z3 4.8 / cvc5"}],
    "checks": checks,
    "not_applicable": na,
    "notes": static['notes'],
}
json.dump(m, open(f'{root}/MANIFEST.json', 'w'), indent=1)
print('claimed', claimed)
